#!/bin/bash
# Nothing to build: verifies that the interpreter, its libraries and the repo import offline.
set -e
cd "$(dirname "$0")"
PYTHONPATH="/verif:${PGF_REPO:-/repo}" /venv/bin/python - <<'PY'
import numpy, scipy, pygradflow.solver, sim.runner, sim.engine
print("setup ok: numpy", numpy.__version__, "scipy", scipy.__version__)
PY
mkdir -p evidence replays
