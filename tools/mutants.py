#!/usr/bin/env python3
"""Sensitivity self-test: applies hand-written one/two-line mutants of /repo to a
scratch copy (outside /repo and /verif, deleted afterwards) and runs the quick check
of the target property against it; the check must exit 1.

usage: tools/mutants.py [--only NAME_SUBSTR] [--tests] [--worlds N]
  --tests also runs the repo's own test-suite on each mutant (test-silence).
"""
import argparse
import json
import os
import shutil
import subprocess
import sys
import tempfile
import time

VERIF = os.path.dirname(os.path.dirname(os.path.abspath(__file__)))

# (property, name, file, old, new)
M = [
    # ---- C01
    ("C01", "unscale_dual_sign", "pygradflow/scale.py",
     "    def unscale_dual(self, y):\n        return np.ldexp(y, self._dual_weights())",
     "    def unscale_dual(self, y):\n        return np.ldexp(y, -self._dual_weights())"),
    ("C01", "unscale_bounds_dual_no_obj", "pygradflow/scale.py",
     "    def _bound_weights(self):\n        return self.var_weights - self.obj_weight",
     "    def _bound_weights(self):\n        return self.var_weights"),
    ("C01", "total_res_without_stat", "pygradflow/iterate.py",
     "        return max(self.cons_violation, self.bound_violation, self.stat_res)",
     "        return max(self.cons_violation, self.bound_violation)"),
    ("C01", "bounds_dual_swapped", "pygradflow/iterate.py",
     "        d[active_set.at_upper] = np.maximum(r[active_set.at_upper], 0.0)\n        d[active_set.at_lower] = np.minimum(r[active_set.at_lower], 0.0)",
     "        d[active_set.at_upper] = np.minimum(r[active_set.at_upper], 0.0)\n        d[active_set.at_lower] = np.maximum(r[active_set.at_lower], 0.0)"),
    ("C01", "slack_bound_wrong_side", "pygradflow/cons_problem.py",
     "        slack_ub = cons_ub[self.slack_positions]",
     "        slack_ub = np.where(np.isfinite(cons_lb[self.slack_positions]), np.inf, cons_ub[self.slack_positions])"),
    # ---- C02
    ("C02", "iter_limit_strict", "pygradflow/solver.py",
     "            iteration >= params.iteration_limit",
     "            iteration > params.iteration_limit"),
    ("C02", "time_limit_sign", "pygradflow/timer.py",
     "        return self.remaining() <= 0.0",
     "        return self.remaining() <= 0.5 * self.time_limit"),
    ("C02", "infeasible_minmax_swapped", "pygradflow/iterate.py",
     "        infeas_opt_res[at_lower] = np.minimum(infeas_opt_res[at_lower], 0.0)\n        infeas_opt_res[at_upper] = np.maximum(infeas_opt_res[at_upper], 0.0)",
     "        infeas_opt_res[at_lower] = np.maximum(infeas_opt_res[at_lower], 0.0) * 0.0\n        infeas_opt_res[at_upper] = np.minimum(infeas_opt_res[at_upper], 0.0) * 0.0"),
    ("C02", "unbounded_without_feasibility", "pygradflow/solver.py",
     "        if (iterate.obj <= params.obj_lower_limit) and (\n            iterate.is_feasible(params.opt_tol)\n        ):",
     "        if iterate.obj <= params.obj_lower_limit:"),
    # ---- C03
    ("C03", "lamb_red_as_growth", "pygradflow/step/distance_ratio_control.py",
     "            lamb_n = max(lamb * params.lamb_red, params.lamb_min)",
     "            lamb_n = max(lamb / params.lamb_red, params.lamb_min)"),
    ("C03", "theta_max_wrong_way", "pygradflow/step/distance_ratio_control.py",
     "        accepted = theta <= params.theta_max",
     "        accepted = theta >= params.theta_max"),
    # ---- C04
    ("C04", "jac_weight_sum", "pygradflow/scale.py",
     "            jac_data[k] = np.ldexp(v, cons_weights[i] - var_weights[j])",
     "            jac_data[k] = np.ldexp(v, cons_weights[i] + var_weights[j])"),
    ("C04", "hess_multiplier_not_unscaled", "pygradflow/scale.py",
     "        y_orig = np.ldexp(y, cons_weights - obj_weight)",
     "        y_orig = np.ldexp(y, cons_weights)"),
    ("C04", "offset_plus_lb", "pygradflow/cons_problem.py",
     "                    cons_offsets[i] = -lb",
     "                    cons_offsets[i] = lb"),
    ("C04", "unscale_primal_plus", "pygradflow/scale.py",
     "    def unscale_primal(self, x):\n        return np.ldexp(x, -self.var_weights)",
     "    def unscale_primal(self, x):\n        return np.ldexp(x, self.var_weights)"),
    ("C04", "cons_bounds_wrong_weights", "pygradflow/scale.py",
     "        cons_ub = np.ldexp(problem.cons_ub, scaling.cons_weights)",
     "        cons_ub = np.ldexp(problem.cons_ub, scaling.cons_weights - scaling.obj_weight)"),
    # ---- C05
    ("C05", "clip_one_sided", "pygradflow/step/solver/step_solver.py",
     "        at_ub = xn > var_ub\n        xn[at_ub] = var_ub[at_ub]",
     "        at_ub = xn > var_ub + 1e-12\n        xn[at_ub] = var_ub[at_ub]"),
    ("C05", "slack_start_not_clipped", "pygradflow/cons_problem.py",
     "            slack_val = np.clip(cons_val, lb_val, ub_val)",
     "            slack_val = cons_val"),
    # ---- C06
    ("C07", "compute_step_swallow_narrowed", "pygradflow/step/step_control.py",
     "        except EvalError as e:\n            logger.warning(\"Evaluation error during step computation: %s\", e)\n            return fail_result()",
     "        except EvalError as e:\n            logger.warning(\"Evaluation error during step computation: %s\", e)\n            raise"),
    ("C06", "nan_result_on_timelimit", "pygradflow/solver.py",
     "        d = iterate.bounds_dual\n\n        (x, y, d) = self.transform.restore_sol(x, y, d)\n\n        result = SolverResult(",
     "        d = iterate.bounds_dual\n        if status == SolverStatus.TimeLimit and iterations > 7:\n            d = d / 0.0\n\n        (x, y, d) = self.transform.restore_sol(x, y, d)\n\n        result = SolverResult("),
    # ---- C07
    ("C07", "fail_result_returns_lamb", "pygradflow/step/step_control.py",
     "        return 2.0 * lamb",
     "        return lamb"),
    ("C07", "no_revalidation", "pygradflow/step/step_control.py",
     "            if step.accepted:\n                step.iterate.check_eval()\n",
     ""),
    ("C07", "extended_no_wrap", "pygradflow/step/solver/extended_step_solver.py",
     "        except LinearSolverError as e:\n            raise StepSolverError from e\n\n        dx = sol[:n]",
     "        except LinearSolverError as e:\n            raise\n\n        dx = sol[:n]"),
    ("C07", "grad_finiteness_dropped", "pygradflow/eval.py",
     "        if not np.isfinite(grad).all():\n            raise EvalError(\"Non-finite gradient\", x)\n",
     ""),
    # ---- C08
    ("C08", "limits_after_step", "pygradflow/solver.py",
     "            if accept:\n\n                if next_rho != self.rho:",
     "            if accept or (params.iteration_limit is not None and iteration + 1 >= params.iteration_limit and step_result.accepted):\n\n                if accept and next_rho != self.rho:"),
    ("C08", "deadline_accepts", "pygradflow/step/exact_control.py",
     "                raise StepSolverError(\"Time limit reached\")",
     "                return StepControlResult(next_iterate, lamb, active_set, rcond, True)"),
    ("C08", "timer_from_reset", "pygradflow/timer.py",
     "    def remaining(self):\n        return self.time_limit - self.elapsed()",
     "    def remaining(self):\n        r = self.time_limit - self.elapsed()\n        if r <= 0.0:\n            self.reset()\n        return r"),
    # ---- C09
    ("C09", "display_in_try_mutates", "pygradflow/solver.py",
     "                state[\"iter\"] = iteration + 1",
     "                state[\"iter\"] = iteration + 1\n                lamb = float(np.float32(lamb))"),
    ("C09", "debug_level_changes_tolerance", "pygradflow/step/step_control.py",
     "        level = logger.getEffectiveLevel()\n        if not self.display or level > logging.DEBUG:\n            return\n",
     "        level = logger.getEffectiveLevel()\n        if not self.display or level > logging.DEBUG:\n            return\n        step.iterate.obj_grad.flags.writeable = True\n        step.iterate.obj_grad[...] = step.iterate.obj_grad * (1.0 + 1e-9)\n"),
    ("C09", "rcond_changes_solver", "pygradflow/step/solver/symmetric_step_solver.py",
     "            rcond = self.estimate_rcond(self.deriv, self.solver)\n\n        return (dx, dy, rcond)",
     "            rcond = self.estimate_rcond(self.deriv, self.solver)\n            if rcond is not None and rcond < 1e-12:\n                dx = 0.5 * dx\n\n        return (dx, dy, rcond)"),
    # ---- C10
    ("C10", "controller_hoisted", "pygradflow/solver.py",
     "        controller = step_controller(problem, params)\n\n        self._deriv_check(iterate.x, iterate.y)",
     "        if not hasattr(self, \"_controller\"):\n            self._controller = step_controller(problem, params)\n        controller = self._controller\n\n        self._deriv_check(iterate.x, iterate.y)"),
    ("C10", "penalty_hoisted", "pygradflow/solver.py",
     "        self.penalty_strategy = penalty_strategy(self.problem, params)\n        self.rho = -1.0",
     "        if not hasattr(self, \"penalty_strategy\"):\n            self.penalty_strategy = penalty_strategy(self.problem, params)\n        self.rho = -1.0"),
    ("C10", "default_params_mutated", "pygradflow/solver.py",
     "        lamb = params.lamb_init\n\n        controller = step_controller(problem, params)\n\n        self._deriv_check",
     "        lamb = params.lamb_init\n        if params.iteration_limit is None:\n            params.lamb_init = 2.0 * params.lamb_init\n\n        controller = step_controller(problem, params)\n\n        self._deriv_check"),
    # ---- C11
    ("C11", "iterate_no_copy", "pygradflow/cons_problem.py",
     "        # do not modify the array returned by the user's callback\n        orig_cons = np.copy(orig_cons)\n",
     ""),
    ("C11", "scaled_jac_inplace", "pygradflow/scale.py",
     "        jac = jac_orig.tocoo().astype(np.float64, copy=True)",
     "        jac = jac_orig.tocoo()"),
    ("C11", "cons_bounds_scaled_inplace", "pygradflow/scale.py",
     "        cons_lb = np.ldexp(problem.cons_lb, scaling.cons_weights)",
     "        cons_lb = np.ldexp(problem.cons_lb, scaling.cons_weights, out=problem.cons_lb)"),
    # ---- C12
    ("C12", "accepted_before_veto", "pygradflow/solver.py",
     "            if accept:\n                penalty_result = self.penalty_strategy.update(iterate, next_iterate)",
     "            if accept:\n                accepted_steps += 1\n                penalty_result = self.penalty_strategy.update(iterate, next_iterate)"),
    ("C12", "path_for_rejected", "pygradflow/solver.py",
     "                if path is not None:\n                    path.append(next_iterate.z)",
     "                if path is not None and primal_step_norm > 0.0:\n                    path.append(next_iterate.z)"),
    ("C12", "model_times_next_lambda", "pygradflow/solver.py",
     "                    path_times.append(path_times[-1] + dt)",
     "                    path_times.append(path_times[-1] + (1.0 / lamb))"),
    # ---- C15
    ("C15", "lamb_inc_division", "pygradflow/step/distance_ratio_control.py",
     "            lamb_n = lamb * params.lamb_inc",
     "            lamb_n = lamb / params.lamb_inc"),
    ("C15", "lamb_max_after_next_step", "pygradflow/solver.py",
     "            if lamb >= params.lamb_max and not timer.reached_time_limit():",
     "            if lamb >= 4.0 * params.lamb_max:"),
    ("C15", "exact_accepts_on_rate", "pygradflow/step/exact_control.py",
     "            if next_func_val <= self.params.newton_tol:",
     "            if next_func_val <= self.params.newton_tol or (i > 0 and next_func_val / curr_func_val < 1e-3):"),
    ("C15", "exact_half_on_rejection", "pygradflow/step/exact_control.py",
     "        return StepControlResult(next_iterate, 2.0 * lamb, active_set, rcond, False)",
     "        return StepControlResult(next_iterate, 1.0 * lamb, active_set, rcond, False)"),
    # ---- C16
    ("C16", "dualnorm_max", "pygradflow/penalty.py",
     "            next_rho = min(ynorm, 10.0 * self.rho)",
     "            next_rho = max(ynorm, 10.0 * self.rho)"),
    ("C16", "pareto_without_final_max", "pygradflow/penalty.py",
     "        next_rho = max(next_rho, self.rho)\n\n        assert next_rho >= self.rho\n",
     ""),
    ("C16", "constant_returns_strategy_rho", "pygradflow/penalty.py",
     "        return PenaltyResult.accept_with_penalty(self.params.rho)",
     "        return PenaltyResult.accept_with_penalty(self.params.rho * (1.0 + (next_iterate.cons_violation > 10.0)))"),
    # ---- C18
    ("C18", "dominates_strict", "pygradflow/penalty.py",
     "            return first[0] <= second[0] and first[1] <= second[1]",
     "            return first[0] < second[0] and first[1] < second[1]"),
    ("C18", "dominated_not_removed", "pygradflow/penalty.py",
     "        self.entries = [e for e in self.entries if not dominates(entry, e)]",
     "        self.entries = [e for e in self.entries if not (dominates(entry, e) and len(self.entries) < 3)]"),
    ("C18", "rho_raised_on_accept", "pygradflow/penalty.py",
     "        if self.filter_insert(*next_entry):\n            return PenaltyResult.accept_with_penalty(self.rho)",
     "        if self.filter_insert(*next_entry):\n            if len(self.entries) > 4:\n                self.rho *= 10.0\n            return PenaltyResult.accept_with_penalty(self.rho)"),
    # ---- C19
    ("C19", "row_instead_of_column", "pygradflow/deriv_check.py",
     "        darray = dval[:, i]",
     "        darray = dval[:, i] if m != n else dval[i, :].T"),
    ("C19", "atol_ignored", "pygradflow/deriv_check.py",
     "        if not np.allclose(darray, apx_dval, atol=params.deriv_tol):",
     "        if not np.allclose(darray, apx_dval, atol=10 * params.deriv_tol):"),
    ("C19", "hessian_check_y_zero", "pygradflow/solver.py",
     "                lambda x: eval.obj_grad(x) + eval.cons_jac(x).T.dot(y),\n                x,\n                eval.lag_hess(x, y),",
     "                lambda x: eval.obj_grad(x) + eval.cons_jac(x).T.dot(0 * y),\n                x,\n                eval.lag_hess(x, 0 * y),"),
]


def run(cmd, env=None, timeout=1800, cwd=None):
    p = subprocess.run(cmd, env=env, cwd=cwd, capture_output=True, text=True, timeout=timeout)
    return p.returncode, p.stdout + p.stderr


def main():
    ap = argparse.ArgumentParser()
    ap.add_argument("--only")
    ap.add_argument("--tests", action="store_true")
    ap.add_argument("--worlds", type=int)
    ap.add_argument("--out", default=os.path.join(VERIF, "mutants_report.json"))
    a = ap.parse_args()
    report = []
    for (prop, name, path, old, new) in M:
        if a.only and a.only not in name and a.only != prop:
            continue
        tmp = tempfile.mkdtemp(prefix="pgf-mut-")
        try:
            dst = os.path.join(tmp, "repo")
            shutil.copytree("/repo", dst, ignore=shutil.ignore_patterns(".git", "__pycache__", "*.pyc"))
            f = os.path.join(dst, path)
            s = open(f).read()
            if s.count(old) != 1:
                report.append({"property": prop, "mutant": name, "result": "NOT-APPLICABLE (pattern count %d)" % s.count(old)})
                print(prop, name, "pattern not found exactly once", flush=True)
                continue
            open(f, "w").write(s.replace(old, new))
            env = dict(os.environ, PGF_REPO=dst)
            t0 = time.time()
            cmd = [os.path.join(VERIF, "check"), prop, "--tier", "quick"]
            if a.worlds:
                cmd += ["--worlds", str(a.worlds)]
            rc, out = run(cmd, env=env)
            sigs = sorted(set(l.split("sig=")[1].split(" ")[0] for l in out.splitlines() if "sig=" in l and l.startswith("  clause")))
            rec = {"property": prop, "mutant": name, "check_rc": rc, "killed": rc == 1, "sigs": sigs[:4], "wall": round(time.time() - t0, 1)}
            if a.tests:
                rc2, out2 = run(["/venv/bin/python", "-m", "pytest", "-q", "-p", "no:cacheprovider", "--timeout=100", "-x", "--deselect", "tests/pygradflow/test_params.py", "-k", "not MA57 and not Optimizing and not BoxReduced"], cwd=dst)
                rec["tests_rc"] = rc2
                rec["test_silent"] = rc2 == 0
                rec["tests_tail"] = out2.strip().splitlines()[-1][:200] if out2.strip() else ""
            report.append(rec)
            print(json.dumps(rec), flush=True)
        finally:
            shutil.rmtree(tmp, ignore_errors=True)
    json.dump(report, open(a.out, "w"), indent=1)
    k = sum(1 for r in report if r.get("killed"))
    print("killed %d of %d" % (k, len(report)))


if __name__ == "__main__":
    sys.exit(main())
