#!/bin/bash
# soak: every registered check, quick tier, over a range of seeds; prints one line per run and the
# full diagnostics of every run that did not exit 0.   usage: tools/soak.sh <first_seed> <last_seed> [ids...]
cd "$(dirname "$0")/.."
a=$1; b=$2; shift 2
ids=${@:-$(python3 -c "import json;print(' '.join(c['property_id'] for c in json.load(open('MANIFEST.json'))['checks']))")}
for seed in $(seq $a $b); do
  for id in $ids; do
    s=$(date +%s)
    out=$(VERIF_SEED=$seed ./check $id --tier quick 2>&1); rc=$?
    e=$(date +%s)
    echo "seed=$seed $id rc=$rc wall=$((e-s))s $(echo "$out" | grep -E '^done' | sed 's/done //')"
    if [ $rc -ne 0 ]; then echo "$out" | grep -E '^(VIOLATION|  clause|HARNESS|KNOWN)' | cut -c1-400; fi
  done
done
