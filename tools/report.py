#!/usr/bin/env python3
"""Markdown tables for DESIGN.md section 15 from seeded/*/meta.json and mutants_report.json."""
import json, os, glob
V = os.path.dirname(os.path.dirname(os.path.abspath(__file__)))
print("| seeded change | breaks | what it is / what it needs (author's note, abridged) | caught by (check: clauses) |")
print("|---|---|---|---|")
for d in sorted(glob.glob(os.path.join(V, "seeded", "*"))):
    m = json.load(open(os.path.join(d, "meta.json")))
    note = " ".join(m["needs_to_manifest"].split())[:260]
    det = []
    for r in m.get("ran", []):
        if r["detected"]:
            det.append("%s: %s" % (r["cmd"].split()[0], ", ".join(s.split("/", 1)[1] for s in r["sigs"][:3])))
    miss = [r["cmd"].split()[0] for r in m.get("ran", []) if not r["detected"]]
    print("| %s | %s | %s | %s%s |" % (m["id"], m["breaks_property"], note.replace("|", "/"), "; ".join(det) or "**not caught**", (" (not by: %s)" % ",".join(miss)) if miss and det else ""))
p = os.path.join(V, "mutants_report.json")
if os.path.exists(p):
    rep = json.load(open(p))
    print()
    print("| own mutant | property | killed | clauses | test-silent |")
    print("|---|---|---|---|---|")
    for r in rep:
        print("| %s | %s | %s | %s | %s |" % (r["mutant"], r["property"], r.get("killed"), ", ".join(s.split("/", 1)[1] for s in r.get("sigs", [])[:3]), r.get("test_silent", "n/a")))
