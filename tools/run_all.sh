#!/bin/bash
# runs every registered quick (or $1=thorough) check in sequence; prints one line per check
cd "$(dirname "$0")/.."
tier=${1:-quick}
for id in $(python3 -c "import json;print(' '.join(c['property_id'] for c in json.load(open('MANIFEST.json'))['checks']))"); do
  s=$(date +%s)
  out=$(./check $id --tier $tier 2>&1); rc=$?
  e=$(date +%s)
  echo "$id rc=$rc wall=$((e-s))s $(echo "$out" | grep -E '^(VIOLATION|KNOWN-FINDING|HARNESS)' | cut -c1-160 | tr '\n' ' ')"
done
