#!/usr/bin/env python3
"""Soundness self-test: behaviour-preserving changes of /repo (renames, a different clock
function, an extra parameter on the step seam, reordered independent statements, extra log
lines, inserted copies) applied to a scratch copy must keep the listed checks green (exit 0).

usage: tools/refactors.py [--only NAME] [--worlds N]
"""
import argparse
import json
import os
import shutil
import subprocess
import sys
import tempfile
import time

VERIF = os.path.dirname(os.path.dirname(os.path.abspath(__file__)))

# (name, checks, [(file, old, new), ...])
R = [
    ("clock_monotonic", ["C02", "C08", "C09", "C10", "C12"], [
        ("pygradflow/timer.py", "        self.start = time.time()\n\n    def elapsed(self):\n        return time.time() - self.start\n\n    def reset(self):\n        self.start = time.time()",
         "        self.start = time.monotonic()\n\n    def elapsed(self):\n        return time.monotonic() - self.start\n\n    def reset(self):\n        self.start = time.monotonic()"),
    ]),
    ("step_seam_extra_parameter", ["C08", "C12", "C15", "C07"], [
        ("pygradflow/solver.py", "        display: bool,\n        timer: Timer,\n    ) -> StepControlResult:\n\n        assert rho != -1.0\n        return controller.compute_step(iterate, rho, dt, display, timer)",
         "        display: bool,\n        timer: Timer,\n        iteration: int = -1,\n    ) -> StepControlResult:\n\n        assert rho != -1.0\n        return controller.compute_step(iterate, rho, dt, display, timer)"),
        ("pygradflow/solver.py", "                controller, iterate, self.rho, dt, display_iterate, timer\n            )",
         "                controller, iterate, self.rho, dt, display_iterate, timer, iteration=iteration\n            )"),
    ]),
    ("deriv_check_renamed", ["C05", "C19"], [
        ("pygradflow/solver.py", "    def _deriv_check(self, x: np.ndarray, y: np.ndarray) -> None:\n        from pygradflow.deriv_check import deriv_check\n",
         "    def _verify_derivatives(self, x: np.ndarray, y: np.ndarray) -> None:\n        from pygradflow.deriv_check import deriv_check as fd_verify\n"),
        ("pygradflow/solver.py", "            deriv_check(lambda x: eval.obj(x), x, eval.obj_grad(x), params)", "            fd_verify(lambda x: eval.obj(x), x, eval.obj_grad(x), params)"),
        ("pygradflow/solver.py", "            deriv_check(lambda x: eval.cons(x), x, eval.cons_jac(x), params)", "            fd_verify(lambda x: eval.cons(x), x, eval.cons_jac(x), params)"),
        ("pygradflow/solver.py", "            deriv_check(\n                lambda x: eval.obj_grad(x) + eval.cons_jac(x).T.dot(y),", "            fd_verify(\n                lambda x: eval.obj_grad(x) + eval.cons_jac(x).T.dot(y),"),
        ("pygradflow/solver.py", "        self._deriv_check(iterate.x, iterate.y)", "        self._verify_derivatives(iterate.x, iterate.y)"),
    ]),
    ("check_eval_other_order_and_extra_logging", ["C07", "C05", "C09", "C12"], [
        ("pygradflow/iterate.py", "        self.obj\n        self.obj_grad\n\n        if self.problem.num_cons > 0:\n            self.cons\n            self.cons_jac",
         "        if self.problem.num_cons > 0:\n            self.cons_jac\n            self.cons\n\n        self.obj_grad\n        self.obj"),
        ("pygradflow/solver.py", "            next_iterate = step_result.iterate\n            accept = step_result.accepted",
         "            next_iterate = step_result.iterate\n            logger.debug(\"trial %d finished: accepted=%s\", iteration, step_result.accepted)\n            accept = step_result.accepted"),
    ]),
    ("copies_and_renamed_locals", ["C01", "C04", "C11", "C16"], [
        ("pygradflow/cons_problem.py", "        orig_cons = self.problem.cons(self.orig_vals(x))\n\n        num_slacks = len(self.slack_positions)\n\n        if self.cons_offsets is None and num_slacks == 0:\n            return orig_cons",
         "        orig_cons = np.array(self.problem.cons(self.orig_vals(x)), copy=True)\n\n        num_slacks = len(self.slack_positions)\n\n        if self.cons_offsets is None and num_slacks == 0:\n            return orig_cons"),
        ("pygradflow/penalty.py", "        ynorm = float(np.linalg.norm(iterate.y, ord=np.inf))\n\n        assert ynorm >= 0.0\n\n        if ynorm >= 10.0 * self.rho:\n            next_rho = min(ynorm, 10.0 * self.rho)",
         "        dual_norm = float(np.abs(iterate.y).max())\n\n        if dual_norm >= 10.0 * self.rho:\n            next_rho = min(dual_norm, 10.0 * self.rho)"),
    ]),
    ("filter_rewritten_equivalently", ["C18"], [
        ("pygradflow/penalty.py", "        if any(dominates(e, entry) for e in self.entries):\n            return False\n\n        self.entries = [e for e in self.entries if not dominates(entry, e)]\n        self.entries.append(entry)\n\n        return True",
         "        for e in self.entries:\n            if dominates(e, entry):\n                return False\n\n        kept = []\n        for e in self.entries:\n            if not dominates(entry, e):\n                kept.append(e)\n        kept.append(entry)\n        self.entries = kept\n\n        return True"),
    ]),
    # ---- behaviour changes that keep every property (the properties leave these choices to the code)
    ("fail_factor_four", ["C07", "C08", "C15", "C12", "C10"], [
        ("pygradflow/step/step_control.py", "        return 2.0 * lamb\n", "        return 4.0 * lamb\n"),
    ]),
    ("failed_step_returns_equal_copy", ["C07", "C08", "C12", "C15"], [
        ("pygradflow/step/step_control.py", "            return StepControlResult(iterate, lamb, None, None, False)",
         "            return StepControlResult(iterate.copy(), lamb, None, None, False)"),
    ]),
    ("dualnorm_factor_five", ["C16", "C10", "C01"], [
        ("pygradflow/penalty.py", "        if ynorm >= 10.0 * self.rho:\n            next_rho = min(ynorm, 10.0 * self.rho)",
         "        if ynorm >= 5.0 * self.rho:\n            next_rho = min(ynorm, 5.0 * self.rho)"),
    ]),
    ("extra_clock_reads", ["C02", "C08", "C09", "C10"], [
        ("pygradflow/solver.py", "        if timer.reached_time_limit():\n            logger.debug(\"Reached time limit\")",
         "        timer.elapsed()\n        if timer.reached_time_limit():\n            logger.debug(\"Reached time limit (%f)\", timer.elapsed())"),
    ]),
    ("callbacks_before_lamb_max_test", ["C12", "C15", "C07", "C16"], [
        ("pygradflow/solver.py", "            # a step that was cut short by the deadline is not a failed step:\n            # the termination test of the next iteration reports the time limit\n            if lamb >= params.lamb_max and not timer.reached_time_limit():\n                raise Exception(\n                    f\"Inverse step size {lamb} exceeded maximum {params.lamb_max} (incorrect derivatives?)\"\n                )\n\n            primal_step_norm = float(np.linalg.norm(next_iterate.x - iterate.x))\n            dual_step_norm = float(np.linalg.norm(next_iterate.y - iterate.y))\n\n            self.callbacks(CallbackType.ComputedStep, iterate, next_iterate, accept)\n",
         "            primal_step_norm = float(np.linalg.norm(next_iterate.x - iterate.x))\n            dual_step_norm = float(np.linalg.norm(next_iterate.y - iterate.y))\n\n            self.callbacks(CallbackType.ComputedStep, iterate, next_iterate, accept)\n\n            # a step that was cut short by the deadline is not a failed step:\n            # the termination test of the next iteration reports the time limit\n            if lamb >= params.lamb_max and not timer.reached_time_limit():\n                raise Exception(\n                    f\"Inverse step size {lamb} exceeded maximum {params.lamb_max} (incorrect derivatives?)\"\n                )\n"),
    ]),
    ("penalty_update_before_callbacks_attr", ["C16", "C12", "C18"], [
        # solver.rho (an attribute, not what the trial steps use) is refreshed one statement earlier
        ("pygradflow/solver.py", "            if accept:\n\n                if next_rho != self.rho:", "            if accept:\n                self.last_rho = self.rho\n\n                if next_rho != self.rho:"),
    ]),
    ("result_arrays_copied", ["C08", "C12", "C11"], [
        ("pygradflow/solver.py", "        (x, y, d) = self.transform.restore_sol(x, y, d)\n\n        result = SolverResult(", "        (x, y, d) = self.transform.restore_sol(x, y, d)\n        x, y, d = np.array(x, copy=True), np.array(y, copy=True), np.array(d, copy=True)\n\n        result = SolverResult("),
    ]),
    ("scipy_routines_imported_by_name", ["C07"], [
        ("pygradflow/linear_solver/gmres_solver.py", "import numpy as np\nimport scipy as sp\n", "import numpy as np\nimport scipy as sp\nfrom scipy.sparse.linalg import gmres as _gmres\n"),
        ("pygradflow/linear_solver/gmres_solver.py", "        result = sp.sparse.linalg.gmres(mat, rhs, maxiter=n, x0=initial_sol, atol=atol)", "        result = _gmres(mat, rhs, maxiter=n, x0=initial_sol, atol=atol)"),
        ("pygradflow/linear_solver/lu_solver.py", "import scipy as sp\n", "import scipy as sp\nfrom scipy.sparse.linalg import splu as _splu\n"),
        ("pygradflow/linear_solver/lu_solver.py", "            self.solver = sp.sparse.linalg.splu(mat)", "            self.solver = _splu(mat)"),
    ]),
    ("linear_solver_import_style", ["C07", "C09"], [
        ("pygradflow/linear_solver/__init__.py", "    if solver_type == LinearSolverType.LU:\n        from .lu_solver import LUSolver\n\n        return LUSolver(mat, symmetric=symmetric)",
         "    if solver_type == LinearSolverType.LU:\n        from pygradflow.linear_solver import lu_solver as _lu\n\n        return _lu.LUSolver(mat, symmetric=symmetric)"),
    ]),
]


def main():
    ap = argparse.ArgumentParser()
    ap.add_argument("--only")
    ap.add_argument("--worlds", type=int)
    ap.add_argument("--out", default=os.path.join(VERIF, "refactors_report.json"))
    a = ap.parse_args()
    report = []
    bad = 0
    for (name, checks, edits) in R:
        if a.only and a.only not in name:
            continue
        tmp = tempfile.mkdtemp(prefix="pgf-ref-")
        try:
            dst = os.path.join(tmp, "repo")
            shutil.copytree("/repo", dst, ignore=shutil.ignore_patterns(".git", "__pycache__", "*.pyc"))
            ok = True
            for (path, old, new) in edits:
                f = os.path.join(dst, path)
                s = open(f).read()
                if s.count(old) != 1:
                    print(name, "pattern not found exactly once in", path, flush=True)
                    ok = False
                    break
                open(f, "w").write(s.replace(old, new))
            if not ok:
                report.append({"refactor": name, "result": "pattern-missing"})
                bad += 1
                continue
            env = dict(os.environ, PGF_REPO=dst)
            for chk in checks:
                t0 = time.time()
                cmd = [os.path.join(VERIF, "check"), chk, "--tier", "quick"]
                if a.worlds:
                    cmd += ["--worlds", str(a.worlds)]
                p = subprocess.run(cmd, env=env, capture_output=True, text=True, timeout=3000)
                lines = [l[:240] for l in (p.stdout + p.stderr).splitlines() if l.startswith(("VIOLATION", "  clause", "HARNESS"))][:4]
                rec = {"refactor": name, "check": chk, "rc": p.returncode, "green": p.returncode == 0, "lines": lines, "wall": round(time.time() - t0, 1)}
                if p.returncode != 0:
                    bad += 1
                report.append(rec)
                print(json.dumps(rec), flush=True)
        finally:
            shutil.rmtree(tmp, ignore_errors=True)
    json.dump(report, open(a.out, "w"), indent=1)
    print("not green: %d" % bad)
    return 1 if bad else 0


if __name__ == "__main__":
    sys.exit(main())
