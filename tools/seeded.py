#!/usr/bin/env python3
"""Confirms and archives breaking changes written by independent sub-agents.

usage: tools/seeded.py import <prop> <agent_out_dir> <n>     # change<n>.diff demo<n>.py note<n>.txt -> /verif/seeded/<prop>-<n>/
       tools/seeded.py run [<name-substr>] [--checks C01,C02] [--tier quick] [--no-tests]

'run' takes every /verif/seeded/*/ (or those matching), makes a scratch copy of /repo outside /repo and
/verif, confirms: demo passes on the clean copy, patch applies, demo fails with it, the repo's own test
suite still passes with it; then runs the registered check(s) of the property against the patched copy
(PGF_REPO) and records in meta.json what was run and which signatures fired.  The scratch copy is removed.
"""
import json
import os
import shutil
import subprocess
import sys
import tempfile
import time

VERIF = os.path.dirname(os.path.dirname(os.path.abspath(__file__)))
SEEDED = os.path.join(VERIF, "seeded")
TESTCMD = ["/venv/bin/python", "-m", "pytest", "-q", "-p", "no:cacheprovider", "--timeout=900", "-x", "--deselect", "tests/pygradflow/test_params.py", "-k", "not MA57 and not Optimizing and not BoxReduced"]


def sh(cmd, cwd=None, env=None, timeout=3000):
    p = subprocess.run(cmd, cwd=cwd, env=env, capture_output=True, text=True, timeout=timeout)
    return p.returncode, (p.stdout + p.stderr)


def do_import(prop, src, n):
    name = "%s-%s" % (prop, n)
    d = os.path.join(SEEDED, name)
    os.makedirs(d, exist_ok=True)
    shutil.copy(os.path.join(src, "change%s.diff" % n), os.path.join(d, "patch.diff"))
    shutil.copy(os.path.join(src, "demo%s.py" % n), os.path.join(d, "demo.py"))
    note = open(os.path.join(src, "note%s.txt" % n)).read()
    meta = {"id": name, "breaks_property": prop, "author": "independent sub-agent (given only the property text and a scratch worktree)", "needs_to_manifest": note.strip(), "confirmed": None, "ran": []}
    json.dump(meta, open(os.path.join(d, "meta.json"), "w"), indent=1)
    print("imported", name)


PENDING_ONLY = False


def do_run(match, checks, tier, tests=True, seeds=(None,)):
    for name in sorted(os.listdir(SEEDED)):
        d = os.path.join(SEEDED, name)
        exact = bool(match) and match.count("-") == 1 and match.split("-")[1].isdigit()
        if not os.path.isdir(d) or (match and ((exact and match != name) or (not exact and match not in name))):
            continue
        meta = json.load(open(os.path.join(d, "meta.json")))
        if PENDING_ONLY and meta.get("ran"):
            continue
        prop = meta["breaks_property"]
        tmp = tempfile.mkdtemp(prefix="pgf-seed-")
        try:
            dst = os.path.join(tmp, "repo")
            shutil.copytree("/repo", dst, ignore=shutil.ignore_patterns(".git", "__pycache__", "*.pyc"))
            os.makedirs(os.path.join(dst, "seed_out"))
            shutil.copy(os.path.join(d, "demo.py"), os.path.join(dst, "seed_out", "demo.py"))
            rc_clean, out_clean = sh(["/venv/bin/python", "seed_out/demo.py"], cwd=dst, timeout=900)
            rc_p, out_p = sh(["patch", "-p1", "-i", os.path.join(d, "patch.diff")], cwd=dst)
            if rc_p != 0:
                print(name, "PATCH DOES NOT APPLY", out_p[-300:])
                meta["confirmed"] = False
                meta["why_not"] = "patch does not apply to current /repo"
                json.dump(meta, open(os.path.join(d, "meta.json"), "w"), indent=1)
                continue
            rc_mut, out_mut = sh(["/venv/bin/python", "seed_out/demo.py"], cwd=dst, timeout=900)
            conf = {"demo_clean_rc": rc_clean, "demo_patched_rc": rc_mut, "demo_patched_tail": out_mut.strip().splitlines()[-1][:300] if out_mut.strip() else ""}
            if tests:
                rc_t, out_t = sh(TESTCMD, cwd=dst, timeout=3000)
                conf["tests_rc"] = rc_t
                conf["tests_tail"] = out_t.strip().splitlines()[-1][:200] if out_t.strip() else ""
            meta["confirmation"] = conf
            meta["confirmed"] = bool(rc_clean == 0 and rc_mut != 0 and (not tests or conf["tests_rc"] == 0))
            env = dict(os.environ, PGF_REPO=dst)
            for chk in (checks or [prop]):
                for seed in seeds:
                    t0 = time.time()
                    cmd = [os.path.join(VERIF, "check"), chk, "--tier", tier]
                    if seed is not None:
                        cmd += ["--seed", str(seed)]
                    rc, out = sh(cmd, env=env, timeout=6000)
                    sigs = sorted(set(l.split("sig=")[1].split(" ")[0] for l in out.splitlines() if l.startswith("  clause") and "sig=" in l))
                    harness = [l[:200] for l in out.splitlines() if l.startswith("HARNESS")][:2]
                    rec = {"cmd": " ".join(cmd[1:]) + " (PGF_REPO=<patched scratch copy>)", "rc": rc, "detected": rc == 1, "sigs": sigs[:5], "harness": harness, "wall_s": round(time.time() - t0, 1)}
                    meta["ran"] = [r for r in meta["ran"] if r["cmd"] != rec["cmd"]] + [rec]
                    print(name, chk, "rc=%d" % rc, sigs[:3], harness[:1], flush=True)
            meta["detected_by"] = sorted(set(r["cmd"].split()[0] for r in meta["ran"] if r["detected"]))
            json.dump(meta, open(os.path.join(d, "meta.json"), "w"), indent=1)
            print(name, "confirmed=%s" % meta["confirmed"], conf, flush=True)
        finally:
            shutil.rmtree(tmp, ignore_errors=True)


if __name__ == "__main__":
    if sys.argv[1] == "import":
        do_import(sys.argv[2], sys.argv[3], sys.argv[4])
    else:
        args = sys.argv[2:]
        match = None
        checks = None
        tier = "quick"
        tests = True
        seeds = (None,)
        i = 0
        while i < len(args):
            if args[i] == "--checks":
                checks = args[i + 1].split(",")
                i += 2
            elif args[i] == "--tier":
                tier = args[i + 1]
                i += 2
            elif args[i] == "--pending":
                PENDING_ONLY = True
                i += 1
            elif args[i] == "--no-tests":
                tests = False
                i += 1
            elif args[i] == "--seeds":
                seeds = tuple(int(x) for x in args[i + 1].split(","))
                i += 2
            else:
                match = args[i]
                i += 1
        do_run(match, checks, tier, tests, seeds)
