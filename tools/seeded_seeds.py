#!/usr/bin/env python3
"""Seed-robustness of the detections: every archived seeded change is run again under other VERIF_SEED
values against the check(s) that caught it at the default seed (quick tier, no test-suite run).
Writes /verif/seeded_seed_report.json: per change and seed whether the check exited 1.

usage: tools/seeded_seeds.py --seeds 1,7 [name-substr] [--workers N]
"""
import json
import os
import shutil
import subprocess
import sys
import tempfile
import time

VERIF = os.path.dirname(os.path.dirname(os.path.abspath(__file__)))
SEEDED = os.path.join(VERIF, "seeded")


def main():
    args = sys.argv[1:]
    seeds = [1, 7]
    match = None
    out = os.path.join(VERIF, "seeded_seed_report.json")
    i = 0
    while i < len(args):
        if args[i] == "--seeds":
            seeds = [int(x) for x in args[i + 1].split(",")]
            i += 2
        elif args[i] == "--out":
            out = args[i + 1]
            i += 2
        else:
            match = args[i]
            i += 1
    report = {}
    if os.path.exists(out):
        report = json.load(open(out))
    for name in sorted(os.listdir(SEEDED)):
        d = os.path.join(SEEDED, name)
        if not os.path.isdir(d) or (match and match not in name):
            continue
        meta = json.load(open(os.path.join(d, "meta.json")))
        checks = meta.get("detected_by") or [meta["breaks_property"]]
        own = meta["breaks_property"]
        chk = own if own in checks else checks[0]
        tmp = tempfile.mkdtemp(prefix="pgf-seedrob-")
        try:
            dst = os.path.join(tmp, "repo")
            shutil.copytree("/repo", dst, ignore=shutil.ignore_patterns(".git", "__pycache__", "*.pyc"))
            p = subprocess.run(["patch", "-p1", "-i", os.path.join(d, "patch.diff")], cwd=dst, capture_output=True, text=True)
            if p.returncode != 0:
                report[name] = {"check": chk, "error": "patch does not apply"}
                print(name, "PATCH DOES NOT APPLY", flush=True)
                continue
            env = dict(os.environ, PGF_REPO=dst)
            rec = report.get(name, {"check": chk, "seeds": {}})
            rec["check"] = chk
            for s in seeds:
                t0 = time.time()
                q = subprocess.run([os.path.join(VERIF, "check"), chk, "--tier", "quick", "--seed", str(s)], env=env, capture_output=True, text=True, timeout=3000)
                rec.setdefault("seeds", {})[str(s)] = {"rc": q.returncode, "wall": round(time.time() - t0, 1)}
                print(name, chk, "seed", s, "rc", q.returncode, flush=True)
            report[name] = rec
            json.dump(report, open(out, "w"), indent=1, sort_keys=True)
        finally:
            shutil.rmtree(tmp, ignore_errors=True)
    miss = [(n, s) for n, r in report.items() for s, v in (r.get("seeds") or {}).items() if v["rc"] != 1]
    print("not detected (change, seed):", miss)


if __name__ == "__main__":
    main()
