#!/usr/bin/env python3
"""Writes /verif/MANIFEST.json from the property modules that exist."""
import importlib
import json
import os
import sys

HERE = os.path.dirname(os.path.dirname(os.path.abspath(__file__)))
sys.path.insert(0, HERE)
sys.path.insert(0, os.environ.get("PGF_REPO", "/repo"))

TEXT = {
    "C01": ("deterministic simulation: end-of-run KKT invariant vs. independent dense reference model over seeded worlds",
            "Every simulated solve (both solvers, full configuration swarm, randomised clock/observers) that ends Optimal is judged by an independent dense KKT oracle in user space with exact power-of-two tolerances. Sampling, not proof: the right level for an end-of-run invariant over an unbounded input space.",
            "Trusts the reference formulas in sim/model.py and the analytic problem families (n<=8, m<=4); integration solver's event localisation gets a documented 1e-6 relative slack."),
    "C02": ("deterministic simulation: per-status end-of-run oracle; TimeLimit judged against the virtual clock's read log",
            "Each non-Optimal status is justified against the reference model (internal stationarity of the violation measure, objective limit, trial count, virtual-clock read log). The deadline clause needs the simulated clock: only there is it known which read tripped.",
            "Trusts sim/model.py (R-infeas, R-transform) and that every clock read goes through pygradflow.timer.time (probed)."),
    "C03": ("deterministic simulation: bounded liveness over a conservative seeded generator of the stated QP class",
            "Fault-free worlds from a conservative sub-class of the stated convex-QP class must reach Optimal within 5000 iterations in the seven default-like configurations. Weakest fit for the technique (no schedule in it); claimed as bounded liveness of whole executions.",
            "Generator is a strict subset of the class (sigma_min(A_free)>=0.2, eig(Q) in [0.5,20], strictly feasible interior point), so a failure is never the generator's fault."),
    "C04": ("deterministic simulation: refinement check at the callback-device boundary, byte-for-byte vs. reference transformation",
            "What the core algorithm saw on every iterate of simulated runs plus seeded probe points equals the reference power-of-two/slack transformation of what the device returned, compared as raw bytes; round trips and start slacks likewise.",
            "Weights limited to |w|<=100 (any integer dtype) and data to 2^+-40, so that no overflow/underflow of a double occurs (the property's 'absent overflow'); comparison is == on every entry."),
    "C05": ("deterministic simulation: device-side invariant monitor on every callback call, fault-free and faulted runs",
            "Every evaluation of every simulated run is checked at the device (argument inside the user's bounds exactly), with call-site attribution for the two stated exemptions; callback iterates and result likewise.",
            "Exemptions are recognised by function name on the stack (deriv_check, create_scaling)."),
    "C06": ("deterministic simulation: outcome classification over adversarial families x configuration swarm x clock/observer schedules",
            "Each whole execution must end in one of five statuses with finite x,y,d or one of the four deliberate errors; anything else is a violation with signature (exception type, innermost pygradflow function).",
            "Supported set excludes Precision.Single, missing optional dependencies and argument combinations rejected by explicit checks (DESIGN 3.3)."),
    "C07": ("deterministic simulation with fault injection: k-th callback evaluation / factorisation / solve fails, region and x0 failures",
            "Reference-then-perturb: every position of the evaluation and linear-solve sequences of short reference runs is failed once (enumeration) - at the callback device, at the library's solver classes and one layer further down at scipy's gmres/minres/splu (made to give up the way scipy does) -, longer runs and multi-fault/region/x0 modes are sampled, a fifth of the worlds add a deadline; failures the underlying solver reports by itself are judged the same way; per-trial and per-run oracles.",
            "validate_input on (default); positions count inside solve(); faulted runs need not follow the reference trajectory, only never return wrong data."),
    "C08": ("deterministic simulation with crash-point enumeration: iteration budget k and deadline at clock read j vs. reference run",
            "Every iteration budget and every clock-read position of the deadline (incl. reads inside the exact Newton loop) of short reference runs is enumerated; stopped runs must be byte-exact prefixes with the right status, result, counters and path. A tenth of the worlds run the flow-integration solver under the same two limits (state after p integrations = end of the p-th path segment).",
            "Stop moment of a deadline = first read by the solver's own Timer at/after expiry; display reads share the clock but cannot stop the solver."),
    "C09": ("deterministic simulation over schedules: observer sets x virtual-clock display patterns vs. silent twin, byte-wise",
            "The virtual clock decides which rows are displayed; log level/handler, callbacks, path and rcond reporting (with injected failures of the estimator's own solves) are varied; trajectory digests must equal the silent run's.",
            "Formatting handler behaves like logging.StreamHandler."),
    "C10": ("deterministic simulation over histories: seeded solve sequences in one process vs. isolated twin in a pristine forked process",
            "Sequences of solves (re-used solvers, shared and default Params, interleaved problems, aborted solves, solves of the flow-integration solver in between) are executed in one process; every solve must have the digest of the same solve alone in a freshly forked process.",
            "Twins are forked before the history starts; harness callbacks are unregistered after each solve."),
    "C11": ("deterministic simulation with an aliasing device: value snapshots of every handed-out object + policy twins",
            "The device hands out fresh / cached / memoised objects (memoised per point, or on the retained argument array) in COO/CSR/CSC, snapshots all caller-owned data (callback results, x0, y0, bounds incl. integer-dtype arrays, weights, the Params object) and re-checks it at every later call; all policies must give byte-identical trajectories.",
            "Sparse values compared canonically; writeable-flag flips are recorded, not failed."),
    "C12": ("deterministic simulation: history checking of trial log vs. callbacks vs. SolverResult",
            "Over fault-free, faulted and limit-stopped runs with all penalty policies, the recorded trial log, the callback sequence and the result's counters/path/model_times/dist_factor must tell one story; observers that (un)register during a notification and a second solver object with a persistent observer are part of the schedule; under exact control the model-time increments are checked against the flow itself.",
            "Final-acceptance truth is the live penalty strategy's verdict (wrapped bound method)."),
    "C15": ("deterministic simulation with injected step failures: invariants over consecutive trials + independent implicit-Euler residual",
            "Every consecutive pair of trials of every run (four controllers, injected failures in half the worlds, small lamb_max, raised lamb_min, deadlines, re-entrant observers) is checked; the step size each trial's equations are really built with is read through the public step-solver hook; exact-control accepted steps are re-evaluated by the reference flow model.",
            "1e-8*sqrt(n) allowance for the code's active-set threshold, documented in DESIGN section 6."),
    "C16": ("deterministic simulation: history invariant over the penalty sequence seen by trials and by a callback observer",
            "Positivity, monotonicity, constant policy, dual-norm bound (relative to the first trial's penalty) and growth factor, change only after acceptance; observers include one that calls the solver's own single-step API from inside the callback.",
            "Dual-norm bound in internal (scaled) multiplier units."),
    "C18": ("deterministic simulation: seeded operation histories on the real PenaltyFilter vs. reference set model, plus live-filter monitor",
            "Operation sequences (ties, duplicates, grids and random floats) drive the real filter objects through filter_insert/update; after each op entries, return value, rho and veto are compared with a textbook Pareto model; the live filter is also monitored during filter-policy solves.",
            "Finite pairs only (the property's domain)."),
    "C19": ("deterministic simulation with fault injection at the callback device: one derivative entry corrupted",
            "A persistent corruption of one gradient/Jacobian/Hessian entry above tolerance must raise DerivError naming the row and column; uncorrupted and sub-tolerance worlds must pass; check on/off must not change the trajectory.",
            "Well-scaled families so that the forward-difference error stays << deriv_tol."),
}

NA = [
    ("C13", "Pure function of (problem, point, multiplier, rho, dt, active set), quantified over points inside/on/outside the bounds and all active sets; no schedule, clock, fault, stop point or history in it. Deciding it is input generation against a dense formula, not simulation (DESIGN.md section 7)."),
    ("C14", "Pure function of (problem, point, dt, rho, active set, implementation choice): comparing step/linear solver formulations at a point involves no interleaving, fault or history (DESIGN.md section 7)."),
    ("C17", "Pure function of (matrix, right-hand side, initial guess, solver type) over arbitrary sparse matrices; nothing for a simulator to schedule or inject (DESIGN.md section 7)."),
    ("C20", "Pure function of (gradient, Jacobian, Hessian, nominal values); no nondeterminism, fault or history dimension (DESIGN.md section 7)."),
]

ORDER = ["C01", "C02", "C03", "C04", "C05", "C06", "C07", "C08", "C09", "C10", "C11", "C12", "C15", "C16", "C18", "C19"]


def main():
    checks = []
    claimed = []
    for pid in ORDER:
        try:
            mod = importlib.import_module("sim.props." + pid)
        except ModuleNotFoundError:
            continue
        tech, text, note = TEXT[pid]
        claimed.append(pid)
        checks.append({
            "property_id": pid,
            "quick_cmd": "./check %s --tier quick" % pid,
            "thorough_cmd": "./check %s --tier thorough" % pid,
            "evidence_file": "/verif/evidence/%s.json" % pid,
            "replay_cmd_template": "./check %s --replay {path}" % pid,
            "engine": "sim",
            "level_claimed": {"category": mod.LEVEL, "text": text, "design_ref": "DESIGN.md section 6, %s" % pid},
            "level_note": note,
            "technique": tech,
        })
    na = [{"property_id": p, "reason": r} for p, r in NA]
    for pid in ORDER:
        if pid not in claimed:
            na.append({"property_id": pid, "reason": "check under construction in this session (designed in DESIGN.md section 6); not claimed until its check is registered"})
    doc = {
        "version": 1,
        "setup_cmd": "./setup.sh",
        "hooks": {
            "guard": "PYGRADFLOW_VERIF",
            "enable": "no hooks in /repo: every seam is reachable from outside (module attribute pygradflow.timer.time, class-level wrapping of the linear solvers, Solver._compute_step override, public Problem/Callbacks API); checks import pygradflow from /repo's working tree via PYTHONPATH",
            "baseline_off_cmd": "cd /repo && /venv/bin/python -m pytest -ra -q -p no:cacheprovider --timeout=900 --continue-on-collection-errors",
            "source_commits": [],
            "add_only": True,
        },
        "engines": [{"name": "sim", "path": "/verif/sim", "serves_properties": claimed, "kind_free_text": "deterministic simulation with fault injection: seeded world generator, virtual clock, callback and linear-solver devices, forked executions with wall limits, delta-debugging shrinker, replay files"}],
        "checks": checks,
        "not_applicable": na,
        "notes": "Exit codes of ./check: 0 held (KNOWN-FINDING lines possible), 1 VIOLATION, 3 harness failure (lost seam, vacuous batch, >2% inconclusive worlds). Genuine defects found and repaired are listed in known_findings.json (state fixed) and DESIGN.md section 8.",
    }
    with open(os.path.join(HERE, "MANIFEST.json"), "w") as f:
        json.dump(doc, f, indent=1)
    print("claimed:", claimed)


if __name__ == "__main__":
    main()
