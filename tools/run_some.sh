#!/bin/bash
# usage: tools/run_some.sh <tier> <id>...   (like run_all.sh for a chosen list of checks)
cd "$(dirname "$0")/.."
tier=$1; shift
for id in "$@"; do
  s=$(date +%s)
  out=$(./check $id --tier $tier 2>&1); rc=$?
  e=$(date +%s)
  echo "$id rc=$rc wall=$((e-s))s $(echo "$out" | grep -E '^(VIOLATION|  clause|KNOWN-FINDING|HARNESS|done)' | cut -c1-260 | tr '\n' ' ')"
done
