"""Executes one world (section 2 of DESIGN.md) against the real pygradflow code
and records everything that crossed a seam."""
import inspect
import logging
import traceback
import warnings

import numpy as np

from .clock import T0, VirtualClock

# Even the clock reads a module might make while it is being *imported* (a default argument
# evaluated at import time, a module-level timestamp) are virtual: pygradflow.timer is imported
# with a stand-in `time` module that reports the virtual boot time of the process.
import sys as _sys
import types as _types

if "pygradflow.timer" not in _sys.modules:
    _real_time = _sys.modules.get("time")
    _boot = _types.ModuleType("time")
    _boot.time = lambda: T0 - 5.0
    _sys.modules["time"] = _boot
    try:
        import pygradflow.timer as pg_timer
    finally:
        if _real_time is not None:
            _sys.modules["time"] = _real_time
        else:
            del _sys.modules["time"]
else:
    import pygradflow.timer as pg_timer
from pygradflow.callbacks import CallbackType
from pygradflow.params import Params
from pygradflow.scale import Scaling
from pygradflow.solver import Solver

from .devices import LIN, SimProblem
from .model import RefTransform, weights_of
from .util import Digest, fb

LG = logging.getLogger("gradflow")
LG.propagate = False
warnings.simplefilter("ignore")
np.seterr(all="ignore")

DELIBERATE = (
    "Failed to evaluate initial iterate",
    "Inverse step size",
    "Line search failed",
)


class SimAbort(BaseException):
    """Raised by the simulator (never by pygradflow) when a run exceeds the step cap:
    more trial steps than iteration_limit allows.  Bounds every run; judged by the oracles."""


class _Handler(logging.Handler):
    """Formats every record (forces %-interpolation of lazy arguments, like any
    real handler) and keeps a digest; formatting errors are counted, not raised
    (the behaviour of logging.StreamHandler)."""

    def __init__(self):
        super().__init__(level=0)
        self.records = []
        self.format_errors = 0

    def emit(self, record):
        try:
            msg = record.getMessage()
        except Exception:  # noqa
            self.format_errors += 1
            msg = "<format error>"
        self.records.append((record.levelno, msg))


def build_params(world, shared=None):
    """Params object from the world's param dict (enum values by name)."""
    kw = dict(world.get("params", {}))
    x0 = np.array(world["x0"], dtype=float)
    y0 = np.array(world["y0"], dtype=float)
    sc = kw.pop("scaling", None)
    if sc is not None:
        kw["scaling"] = Scaling(
            np.array(sc["var"], dtype=int), np.array(sc["cons"], dtype=int), int(sc.get("obj", 0))
        )
    for key, dflt in (("scaling_primal", x0), ("scaling_dual", y0)):
        v = kw.get(key)
        if v is None:
            kw.pop(key, None)
        elif isinstance(v, str):
            kw[key] = dflt.copy()
        else:
            kw[key] = np.array(v, dtype=float)
    if kw.get("time_limit") is None:
        kw.pop("time_limit", None)
    return Params(**kw)


class Trial:
    __slots__ = (
        "t", "inp", "dt", "rho", "lamb", "accepted", "out", "reads_before", "reads_after",
        "evals_before", "evals_after", "nfired_before", "nfired_after", "lin_before", "lin_after",
        "exc", "penalty", "solver_rho_cb", "filter_after", "cb",
    )

    def key(self):
        return (
            fb(self.dt), fb(self.rho), fb(self.lamb), bool(self.accepted),
            self.out.x.tobytes(), self.out.y.tobytes(),
        )

    def final_accept(self):
        if not self.accepted:
            return False
        if self.penalty is None:
            return None
        return bool(self.penalty[1])


class HarnessError(BaseException):
    """A seam of the simulator no longer fits the code (never a verdict about a property)."""


_STEP_SIG = inspect.signature(Solver._compute_step)


class RecordingSolver(Solver):
    """Trial log through the existing seam Solver._compute_step.  Arguments are bound by *name*
    against the real method's signature, so added or reordered parameters do not break the seam."""

    def _sim_init(self, ex):
        self._ex = ex

    def _compute_step(self, *args, **kwargs):
        ex = self._ex
        try:
            ba = _STEP_SIG.bind(self, *args, **kwargs)
            iterate, rho, dt = ba.arguments["iterate"], ba.arguments["rho"], ba.arguments["dt"]
        except (TypeError, KeyError) as e:
            raise HarnessError("trial-log seam lost: Solver._compute_step%s no longer takes iterate/rho/dt (%s)" % (_STEP_SIG, e))
        ex.problem.phase = "run"
        ex._hook_penalty(self)
        lim = self.params.iteration_limit
        cap = (lim + 2) if lim is not None else ex.step_cap
        if len(ex.trials) >= cap:
            raise SimAbort("step cap: trial %d requested although iteration_limit=%r" % (len(ex.trials) + 1, lim))
        tr = Trial()
        tr.t = len(ex.trials)
        tr.inp, tr.dt, tr.rho = iterate, dt, rho
        tr.reads_before = ex.clock.n
        tr.evals_before = dict(ex.problem.count)
        tr.nfired_before = len(ex.problem.fired)
        tr.lin_before = (LIN.n_factor, LIN.n_solve, len(LIN.fired))
        tr.exc = None
        tr.penalty = None
        tr.cb = None
        tr.solver_rho_cb = None
        tr.filter_after = None
        tr.lamb = float("nan")
        tr.accepted = False
        tr.out = iterate
        ex.trials.append(tr)
        ex.log(("trial.begin", tr.t, fb(dt), fb(rho)))
        try:
            r = super()._compute_step(*args, **kwargs)
        except BaseException as e:  # recorded, then re-raised unchanged
            tr.exc = type(e).__name__
            tr.reads_after = ex.clock.n
            tr.evals_after = dict(ex.problem.count)
            tr.nfired_after = len(ex.problem.fired)
            tr.lin_after = (LIN.n_factor, LIN.n_solve, len(LIN.fired))
            raise
        tr.lamb, tr.accepted, tr.out = float(r.lamb), bool(r.accepted), r.iterate
        tr.reads_after = ex.clock.n
        tr.evals_after = dict(ex.problem.count)
        tr.nfired_after = len(ex.problem.fired)
        tr.lin_after = (LIN.n_factor, LIN.n_solve, len(LIN.fired))
        ex.log(("trial.end", tr.t, fb(tr.lamb), tr.accepted, tr.out.x.tobytes(), tr.out.y.tobytes()))
        return r


class Execution:
    """Everything recorded about one solve."""

    def __init__(self, world):
        self.world = world
        self.events = []
        self.trials = []
        self.cbs = []
        self.result = None
        self.exc = None
        self.exc_type = None
        self.exc_msg = None
        self.exc_func = None
        self.exc_chain = ()
        self.status = None
        self.solver = None
        self.problem = None
        self.clock = None
        self.handler = None
        self._hooked = None
        self.full = Digest()
        self.lin_fired = []
        self.lin_counts = (0, 0, 0)
        self.step_cap = 20000
        self.t_begin = None
        self.reads_at_begin = 0
        self.aborted = False

    def log(self, ev):
        self.events.append(ev)

    # penalty strategy is created inside solve(); hook its update lazily
    def _hook_penalty(self, solver):
        ps = getattr(solver, "penalty_strategy", None)
        if ps is None or self._hooked is ps:
            return
        self._hooked = ps
        orig = ps.update
        ex = self

        def update(prev_iterate, next_iterate):
            res = orig(prev_iterate, next_iterate)
            if ex.trials:
                tr = ex.trials[-1]
                tr.penalty = (float(res.next_rho), bool(res.accept))
                ents = getattr(ps, "entries", None)
                if ents is not None:
                    tr.filter_after = (list(ents), float(ps.rho))
            return res

        ps.update = update

    # ---- outcome helpers
    @property
    def outcome(self):
        """'status:<Name>' | 'deliberate:<prefix>' | 'DerivError' | 'crash:<Type>@<func>'"""
        if self.result is not None:
            return "status:" + self.status
        if self.exc_type == "DerivError":
            return "DerivError"
        if self.exc_type == "Exception":
            for p in DELIBERATE:
                if self.exc_msg.startswith(p):
                    return "deliberate:" + p
        return "crash:%s@%s" % (self.exc_type, self.exc_func)

    def traj_digest(self):
        d = Digest()
        for tr in self.trials:
            if tr.exc is None:
                d.add("trial", *tr.key())
            else:
                d.add("trial-exc", fb(tr.dt), fb(tr.rho), tr.exc)
        r = self.result
        if r is not None:
            d.add("end", self.status, int(r.iterations), int(r.num_accepted_steps), r.x.tobytes(), r.y.tobytes(), r.d.tobytes())
        else:
            d.add("end-exc", self.outcome)
        return d.hex()

    def full_digest(self):
        d = Digest()
        for ev in self.events:
            d.add(*ev)
        for (lv, msg) in (self.handler.records if self.handler else ()):
            d.add("log", int(lv), msg)
        d.add("traj", self.traj_digest())
        return d.hex()

    def io_digest(self):
        d = Digest()
        for ev in self.events:
            if ev[0].startswith("eval") or ev[0].startswith("lin"):
                d.add(*ev)
        return d.hex()

    # ---- structure helpers for the oracles
    def ref_transform(self):
        um = self.problem.um
        wv, wc, wo = weights_of(self.solver.transform.scaling, um.n, um.m)
        return RefTransform(um, wv, wc, wo)

    def accepted_iterates(self):
        """[start] + outputs of finally accepted trials (live Iterate objects)."""
        out = []
        if self.trials:
            out.append(self.trials[0].inp)
        for tr in self.trials:
            if tr.exc is None and tr.final_accept():
                out.append(tr.out)
        return out

    def final_iterate(self):
        acc = self.accepted_iterates()
        return acc[-1] if acc else None


def _touch(it, nit, acc):
    for o in (it, nit):
        try:
            o.obj
            o.cons
            o.total_res
            o.bounds_dual
            o.active_set
            o.aug_lag(1.0)
            o.cons_jac
            o.obj_grad
        except Exception:  # observers must not die on a bad trial point
            pass


def _innermost(e):
    """(qualified name of the innermost pygradflow function, last few of the chain)."""
    chain = []
    tb = e.__traceback__
    while tb is not None:
        code = tb.tb_frame.f_code
        if "/pygradflow/" in code.co_filename.replace("\\", "/"):
            chain.append(getattr(code, "co_qualname", code.co_name))
        tb = tb.tb_next
    return (chain[-1] if chain else "?"), tuple(chain[-6:])


def execute(world, *, problem=None, solver=None, params=None, reuse_solver=False, x0=None, y0=None, alias=False):
    """Run one solve described by `world`.  `problem`/`solver`/`params` may be
    supplied by history-style profiles that re-use objects across solves."""
    ex = Execution(world)
    obs = world.get("obs", {})
    faults = world.get("faults", [])

    clock = VirtualClock(world.get("clock"), log=ex.log)
    ex.clock = clock
    pg_timer.time = clock

    for h in list(LG.handlers):
        LG.removeHandler(h)
    ex.handler = _Handler()
    LG.addHandler(ex.handler)
    LG.setLevel(getattr(logging, obs.get("level", "CRITICAL")))

    LIN.install()
    LIN.reset(faults, log=ex.log)

    if problem is None:
        problem = SimProblem(world["problem"], faults=faults)
    problem.log = ex.log
    problem.faults = list(faults)
    ex.problem = problem
    if alias:
        problem.start_alias_tracking()

    problem.phase = "construct"
    x0 = np.array(world["x0"] if x0 is None else x0, dtype=float)
    y0 = np.array(world["y0"] if y0 is None else y0, dtype=float)
    problem.x0_bytes = x0.tobytes()
    ex.x0, ex.y0 = x0, y0

    kind = world.get("solver", "homotopy")
    try:
        if solver is None:
            if params is None:
                params = build_params(world)
            ex.params = params
            if kind == "integration":
                from pygradflow.integration.integration_solver import IntegrationSolver

                solver = IntegrationSolver(problem, params)
            elif params == "default":
                solver = RecordingSolver(problem)
                ex.params = solver.params
            else:
                solver = RecordingSolver(problem, params)
        else:
            ex.params = solver.params
        ex.solver = solver
        if isinstance(solver, RecordingSolver):
            solver._sim_init(ex)
            handles = []
            strategy_probe = []

            def rec(it, nit, acc):
                ex.cbs.append((it, nit, bool(acc), float(solver.rho)))
                if ex.trials:
                    ex.trials[-1].cb = len(ex.cbs) - 1
                    ex.trials[-1].solver_rho_cb = float(solver.rho)
                ex.log(("cb", len(ex.cbs), bool(acc)))

            handles.append(solver.callbacks.register(CallbackType.ComputedStep, rec))
            for name in obs.get("callbacks", ()):
                if name == "touch":
                    handles.append(solver.callbacks.register(CallbackType.ComputedStep, _touch))
        ex.x0_arg, ex.y0_arg = x0.copy(), y0.copy()
        # fault positions and per-solve records count from solve.begin, also on a re-used device
        problem.count = {c: 0 for c in problem.count}
        problem.fired = []
        problem.oob = []
        problem.calls = []
        problem.armed = True
        problem.phase = "presolve"
        # virtual time may pass between building the solver and calling solve()
        clock.t += float((world.get("clock") or {}).get("gap_before_solve", 0.0))
        ex.t_begin = clock.t
        ex.reads_at_begin = clock.n
        ex.log(("solve.begin",))
        try:
            r = solver.solve(ex.x0_arg, ex.y0_arg)
        finally:
            problem.armed = False
            if isinstance(solver, RecordingSolver):
                for h in handles:
                    solver.callbacks.unregister(h)
        ex.result = r
        ex.status = r.status.name
        ex.log(("solve.end", ex.status, r.x.tobytes(), r.y.tobytes(), r.d.tobytes(), int(r.iterations), int(r.num_accepted_steps)))
    except (Exception, SimAbort) as e:  # classified by the oracles, never swallowed
        ex.aborted = isinstance(e, SimAbort)
        ex.exc = e
        ex.exc_type = type(e).__name__
        ex.exc_msg = str(e)
        ex.exc_func, ex.exc_chain = _innermost(e)
        ex.log(("solve.exc", ex.exc_type, ex.exc_func))
    ex.lin_fired = list(LIN.fired)
    ex.lin_counts = (LIN.n_factor, LIN.n_solve, LIN.n_obs_solve)
    ex.lin_nonfinite = LIN.nonfinite_returns
    if alias:
        problem._check_handed("solve.end", full=True)
    return ex
