"""Executes one world (section 2 of DESIGN.md) against the real pygradflow code
and records everything that crossed a seam."""
import inspect
import logging
import traceback
import warnings

import numpy as np

from .clock import T0, VirtualClock

# Even the clock reads a module might make while it is being *imported* (a default argument
# evaluated at import time, a module-level timestamp) are virtual: pygradflow.timer is imported
# with a stand-in `time` module that reports the virtual boot time of the process.
import sys as _sys
import types as _types

if "pygradflow.timer" not in _sys.modules:
    _real_time = _sys.modules.get("time")
    _boot = _types.ModuleType("time")
    _boot.time = lambda: T0 - 5.0
    _sys.modules["time"] = _boot
    try:
        import pygradflow.timer as pg_timer
    finally:
        if _real_time is not None:
            _sys.modules["time"] = _real_time
        else:
            del _sys.modules["time"]
else:
    import pygradflow.timer as pg_timer
from pygradflow.callbacks import CallbackType
from pygradflow.params import Params
from pygradflow.scale import Scaling
from pygradflow.solver import Solver

from .devices import LIN, SimProblem
from .model import RefTransform, weights_of
from .util import Digest, fb

LG = logging.getLogger("gradflow")
LG.propagate = False
warnings.simplefilter("ignore")
np.seterr(all="ignore")

DELIBERATE = (
    "Failed to evaluate initial iterate",
    "Inverse step size",
    "Line search failed",
)


class SimAbort(BaseException):
    """Raised by the simulator (never by pygradflow) when a run exceeds the step cap:
    more trial steps than iteration_limit allows.  Bounds every run; judged by the oracles."""


class _Handler(logging.Handler):
    """Formats every record (forces %-interpolation of lazy arguments, like any
    real handler) and keeps a digest; formatting errors are counted, not raised
    (the behaviour of logging.StreamHandler)."""

    def __init__(self):
        super().__init__(level=0)
        self.records = []
        self.format_errors = 0

    def emit(self, record):
        try:
            msg = record.getMessage()
        except Exception:  # noqa
            self.format_errors += 1
            msg = "<format error>"
        self.records.append((record.levelno, msg))


def build_params(world, shared=None):
    """Params object from the world's param dict (enum values by name)."""
    kw = dict(world.get("params", {}))
    x0 = np.array(world["x0"], dtype=float)
    y0 = np.array(world["y0"], dtype=float)
    sc = kw.pop("scaling", None)
    if sc is not None:
        wdt = np.dtype(sc.get("dtype", "int64"))
        kw["scaling"] = Scaling(
            np.array(sc["var"], dtype=wdt), np.array(sc["cons"], dtype=wdt), int(sc.get("obj", 0))
        )
    for key, dflt in (("scaling_primal", x0), ("scaling_dual", y0)):
        v = kw.get(key)
        if v is None:
            kw.pop(key, None)
        elif isinstance(v, str):
            kw[key] = dflt.copy()
        else:
            kw[key] = np.array(v, dtype=float)
    if kw.get("time_limit") is None:
        kw.pop("time_limit", None)
    return Params(**kw)


_CURRENT = {"ex": None}
_PENALTY_SEAM = {"installed": False}


def _install_penalty_seam():
    if _PENALTY_SEAM["installed"]:
        return
    import pygradflow.penalty as _pen

    def wrap(cls):
        orig = cls.__dict__["update"]

        def update(self, prev_iterate, next_iterate, _orig=orig):
            ex = _CURRENT["ex"]
            if ex is None:
                return _orig(self, prev_iterate, next_iterate)
            return ex._on_penalty_update(self, _orig, prev_iterate, next_iterate)

        update._sim_wrapped = True
        cls.update = update

    for name in dir(_pen):
        cls = getattr(_pen, name)
        if isinstance(cls, type) and issubclass(cls, _pen.PenaltyStrategy) and "update" in cls.__dict__ and not getattr(cls.__dict__["update"], "_sim_wrapped", False) and not getattr(cls.__dict__["update"], "__isabstractmethod__", False):
            wrap(cls)
    _PENALTY_SEAM["installed"] = True


def _recording_step_solver(problem, params, iterate, dt, rho):
    """Installed through the public hook Params.step_solver: records the step size and the penalty the
    step equations of a trial are *really* built with, then builds the solver the library would have
    built (the hook is taken out for the duration of that one call)."""
    ex = _CURRENT["ex"]
    if ex is not None and not ex.nested and ex.trials and not ex.finished:
        tr = ex.trials[-1]
        if tr.used is None:
            tr.used = []
        if len(tr.used) < 64:
            tr.used.append((float(dt), float(rho)))
    from pygradflow.step.solver import step_solver as _lib_step_solver

    params.step_solver = None
    try:
        return _lib_step_solver(problem, params, iterate, dt, rho)
    finally:
        params.step_solver = _recording_step_solver


class Trial:
    __slots__ = (
        "t", "inp", "dt", "rho", "lamb", "accepted", "out", "reads_before", "reads_after",
        "evals_before", "evals_after", "nfired_before", "nfired_after", "lin_before", "lin_after",
        "exc", "penalty", "solver_rho_cb", "filter_after", "filter_before", "cb", "used", "inner_before", "inner_after",
    )

    def key(self):
        return (
            fb(self.dt), fb(self.rho), fb(self.lamb), bool(self.accepted),
            self.out.x.tobytes(), self.out.y.tobytes(),
        )

    def final_accept(self):
        if not self.accepted:
            return False
        if self.penalty is None:
            return None
        return bool(self.penalty[1])


class HarnessError(BaseException):
    """A seam of the simulator no longer fits the code (never a verdict about a property)."""


_STEP_SIG = inspect.signature(Solver._compute_step)


class RecordingSolver(Solver):
    """Trial log through the existing seam Solver._compute_step.  Arguments are bound by *name*
    against the real method's signature, so added or reordered parameters do not break the seam."""

    def _sim_init(self, ex):
        self._ex = ex

    def _compute_step(self, *args, **kwargs):
        ex = self._ex
        if ex.nested:
            # a step computation issued from inside an observer (e.g. a callback that calls
            # perform_iteration on its own solver): not a trial step of the solve under observation
            return super()._compute_step(*args, **kwargs)
        try:
            ba = _STEP_SIG.bind(self, *args, **kwargs)
            A = ba.arguments
            iterate = A["iterate"]
            # the penalty and the step size may be passed or kept on the solver object
            rho = A["rho"] if "rho" in A else self.rho
            dt = A["dt"] if "dt" in A else 1.0 / (A["lamb"] if "lamb" in A else self.lamb)
            rho, dt = float(rho), float(dt)
        except (TypeError, KeyError, AttributeError) as e:
            raise HarnessError("trial-log seam lost: Solver._compute_step%s no longer exposes iterate / penalty / step size (%s)" % (_STEP_SIG, e))
        ex.problem.phase = "run"
        ex._hook_penalty(self)
        lim = self.params.iteration_limit
        cap = (lim + 2) if lim is not None else ex.step_cap
        if len(ex.trials) >= cap:
            raise SimAbort("step cap: trial %d requested although iteration_limit=%r" % (len(ex.trials) + 1, lim))
        tr = Trial()
        tr.t = len(ex.trials)
        tr.inp, tr.dt, tr.rho = iterate, dt, rho
        tr.reads_before = ex.clock.n
        tr.evals_before = dict(ex.problem.count)
        tr.nfired_before = len(ex.problem.fired)
        tr.lin_before = (LIN.n_factor, LIN.n_solve, len(LIN.fired))
        tr.inner_before = len(LIN.inner_reports)
        tr.inner_after = None
        tr.exc = None
        tr.penalty = None
        tr.cb = None
        tr.solver_rho_cb = None
        tr.filter_after = None
        tr.filter_before = None
        tr.used = None
        tr.lamb = float("nan")
        tr.accepted = False
        tr.out = iterate
        ex.trials.append(tr)
        ex.log(("trial.begin", tr.t, fb(dt), fb(rho)))
        try:
            r = super()._compute_step(*args, **kwargs)
        except BaseException as e:  # recorded, then re-raised unchanged
            tr.exc = type(e).__name__
            tr.reads_after = ex.clock.n
            tr.evals_after = dict(ex.problem.count)
            tr.nfired_after = len(ex.problem.fired)
            tr.lin_after = (LIN.n_factor, LIN.n_solve, len(LIN.fired))
            tr.inner_after = len(LIN.inner_reports)
            raise
        tr.lamb, tr.accepted, tr.out = float(r.lamb), bool(r.accepted), r.iterate
        tr.reads_after = ex.clock.n
        tr.evals_after = dict(ex.problem.count)
        tr.nfired_after = len(ex.problem.fired)
        tr.lin_after = (LIN.n_factor, LIN.n_solve, len(LIN.fired))
        tr.inner_after = len(LIN.inner_reports)
        ex.log(("trial.end", tr.t, fb(tr.lamb), tr.accepted, tr.out.x.tobytes(), tr.out.y.tobytes()))
        return r


class Execution:
    """Everything recorded about one solve."""

    def __init__(self, world):
        self.world = world
        self.events = []
        self.trials = []
        self.cbs = []
        self.result = None
        self.exc = None
        self.exc_type = None
        self.exc_msg = None
        self.exc_func = None
        self.exc_chain = ()
        self.status = None
        self.solver = None
        self.problem = None
        self.clock = None
        self.handler = None
        self._hooked = None
        self.full = Digest()
        self.lin_fired = []
        self.lin_counts = (0, 0, 0)
        self.step_cap = 20000
        self.t_begin = None
        self.reads_at_begin = 0
        self.aborted = False
        self.nested = 0
        self.foreign_cbs = 0
        self.finished = False
        self.params_changed = []
        self.int_rhos = []

    def log(self, ev):
        self.events.append(ev)

    # the penalty strategies' update() is observed at *class* level (like the linear solvers): whatever strategy object
    # the solver consults - also one that replaced the original in the middle of a solve - is seen
    def _hook_penalty(self, solver):
        _install_penalty_seam()

    def _on_penalty_update(self, ps, orig, prev_iterate, next_iterate):
        ex = self
        if ex.nested or ex.finished:
            return orig(ps, prev_iterate, next_iterate)
        if True:
            before = None
            if getattr(ps, "entries", None) is not None and hasattr(ps, "iterate_entry"):
                try:
                    before = (list(ps.entries), float(ps.rho), tuple(float(v) for v in ps.iterate_entry(next_iterate)))
                except Exception:  # noqa  (the pair cannot be formed: nothing to model)
                    before = None
            res = orig(ps, prev_iterate, next_iterate)
            if ex.trials:
                tr = ex.trials[-1]
                tr.penalty = (float(res.next_rho), bool(res.accept))
                ents = getattr(ps, "entries", None)
                if ents is not None:
                    tr.filter_after = (list(ents), float(ps.rho))
                    tr.filter_before = before
            return res

    # ---- outcome helpers
    @property
    def outcome(self):
        """'status:<Name>' | 'deliberate:<prefix>' | 'DerivError' | 'crash:<Type>@<func>'"""
        if self.result is not None:
            return "status:" + self.status
        if self.exc_type == "DerivError":
            return "DerivError"
        if self.exc_type == "Exception":
            for p in DELIBERATE:
                if self.exc_msg.startswith(p):
                    return "deliberate:" + p
        return "crash:%s@%s" % (self.exc_type, self.exc_func)

    def traj_digest(self):
        d = Digest()
        for tr in self.trials:
            if tr.exc is None:
                d.add("trial", *tr.key())
            else:
                d.add("trial-exc", fb(tr.dt), fb(tr.rho), tr.exc)
        r = self.result
        if r is not None:
            d.add("end", self.status, int(r.iterations), int(r.num_accepted_steps), r.x.tobytes(), r.y.tobytes(), r.d.tobytes())
        else:
            d.add("end-exc", self.outcome)
        return d.hex()

    def result_digest(self):
        """Everything the SolverResult carries as data, including the collected path."""
        d = Digest()
        r = self.result
        if r is None:
            d.add("none", self.outcome)
            return d.hex()
        d.add("res", str(r.status), int(r.iterations), int(r.num_accepted_steps), np.asarray(r.x).tobytes(), np.asarray(r.y).tobytes(), np.asarray(r.d).tobytes())
        try:
            path, times = r.path, r.model_times
        except Exception:  # noqa
            path, times = None, None
        if path is None:
            d.add("nopath")
        else:
            d.add("path", repr(tuple(int(v) for v in np.shape(path))), np.ascontiguousarray(path).tobytes(), np.ascontiguousarray(times).tobytes())
        return d.hex()

    def full_digest(self):
        d = Digest()
        for ev in self.events:
            d.add(*ev)
        for (lv, msg) in (self.handler.records if self.handler else ()):
            d.add("log", int(lv), msg)
        d.add("traj", self.traj_digest())
        return d.hex()

    def io_digest(self):
        d = Digest()
        for ev in self.events:
            if ev[0].startswith("eval") or ev[0].startswith("lin"):
                d.add(*ev)
        return d.hex()

    # ---- structure helpers for the oracles
    def ref_transform(self):
        um = self.problem.um
        wv, wc, wo = weights_of(self.solver.transform.scaling, um.n, um.m)
        return RefTransform(um, wv, wc, wo)

    def accepted_iterates(self):
        """[start] + outputs of finally accepted trials (live Iterate objects)."""
        out = []
        if self.trials:
            out.append(self.trials[0].inp)
        for tr in self.trials:
            if tr.exc is None and tr.final_accept():
                out.append(tr.out)
        return out

    def final_iterate(self):
        acc = self.accepted_iterates()
        return acc[-1] if acc else None


def _params_snapshot(p):
    snap = {}
    for k, v in vars(p).items():
        if isinstance(v, np.ndarray):
            snap[k] = ("arr", v.dtype.str, v.tobytes())
        elif k == "scaling" and v is not None:
            snap[k] = ("scaling", v.var_weights.dtype.str, v.var_weights.tobytes(), v.cons_weights.dtype.str, v.cons_weights.tobytes(), repr(v.obj_weight))
        elif callable(v) and not isinstance(v, type):
            snap[k] = ("callable", id(v))
        else:
            snap[k] = ("val", repr(v))
    return snap


def _touch(it, nit, acc):
    for o in (it, nit):
        try:
            o.obj
            o.cons
            o.total_res
            o.bounds_dual
            o.active_set
            o.aug_lag(1.0)
            o.cons_jac
            o.obj_grad
            # public query methods, asked with the observer's own (looser) tolerances
            o.locally_infeasible(1e-2, 1e-1)
            o.is_feasible(1e-1)
            o.aug_lag_violation(3.0)
            o.aug_lag_dual()
        except Exception:  # observers must not die on a bad trial point
            pass


def _innermost(e):
    """(qualified name of the innermost pygradflow function, last few of the chain)."""
    chain = []
    tb = e.__traceback__
    while tb is not None:
        code = tb.tb_frame.f_code
        if "/pygradflow/" in code.co_filename.replace("\\", "/"):
            chain.append(getattr(code, "co_qualname", code.co_name))
        tb = tb.tb_next
    return (chain[-1] if chain else "?"), tuple(chain[-6:])


def execute(world, *, problem=None, solver=None, params=None, reuse_solver=False, x0=None, y0=None, alias=False, keep_callbacks=False, start_buffers=None):
    """start_buffers=(xbuf, ybuf): the caller's own start arrays; the values of this solve's start are written into
    them in place and the very objects are passed to solve() (a caller that re-uses its buffers)."""
    x0_given, y0_given = x0 is not None, y0 is not None
    """Run one solve described by `world`.  `problem`/`solver`/`params` may be
    supplied by history-style profiles that re-use objects across solves."""
    ex = Execution(world)
    obs = world.get("obs", {})
    faults = world.get("faults", [])

    clock = VirtualClock(world.get("clock"), log=ex.log)
    ex.clock = clock
    pg_timer.time = clock

    for h in list(LG.handlers):
        LG.removeHandler(h)
    ex.handler = _Handler()
    LG.addHandler(ex.handler)
    LG.setLevel(getattr(logging, obs.get("level", "CRITICAL")))

    LIN.install()
    LIN.reset(faults, log=ex.log)

    if problem is None:
        problem = SimProblem(world["problem"], faults=faults)
    problem.log = ex.log
    problem.clock = clock
    problem.faults = list(faults)
    ex.problem = problem
    if alias:
        problem.start_alias_tracking()

    problem.phase = "construct"
    x0 = np.array(world["x0"] if x0 is None else x0, dtype=float)
    y0 = np.array(world["y0"] if y0 is None else y0, dtype=float)
    problem.x0_bytes = x0.tobytes()
    ex.x0, ex.y0 = x0, y0

    kind = world.get("solver", "homotopy")
    try:
        if solver is None:
            if params is None:
                params = build_params(world)
            ex.params = params
            if kind == "integration":
                from pygradflow.integration.integration_solver import IntegrationSolver

                solver = IntegrationSolver(problem, params)
                # progress of the integration solver at each clock read: completed integrations
                # (= path segments beyond the start column; needs collect_path)
                clock.probe = lambda _s=solver: (len(_s.path) - 1) if getattr(_s, "path", None) else 0
                # the penalty each integration leg uses (seam: the public method perform_integration)
                try:
                    _pi = solver.perform_integration
                    _pi_sig = inspect.signature(_pi)

                    def _logged_integration(*a, _pi=_pi, _sig=_pi_sig, _ex=ex, **k):
                        try:
                            _ex.int_rhos.append(float(_sig.bind(*a, **k).arguments["rho"]))
                        except Exception:  # noqa
                            _ex.int_rhos.append(float(getattr(solver, "rho", float("nan"))))
                        return _pi(*a, **k)

                    solver.perform_integration = _logged_integration
                except AttributeError:
                    pass
            elif params == "default":
                solver = RecordingSolver(problem)
                ex.params = solver.params
            else:
                solver = RecordingSolver(problem, params)
        else:
            ex.params = solver.params
        ex.solver = solver
        if isinstance(solver, RecordingSolver):
            solver._sim_init(ex)
            handles = []
            strategy_probe = []

            def rec(it, nit, acc):
                if ex.finished:
                    # this observer was registered for an earlier solve of *its* solver and left in
                    # place; being called now means somebody else's steps are announced to it
                    ex.foreign_cbs += 1
                    return
                ex.cbs.append((it, nit, bool(acc), float(solver.rho)))
                if ex.trials:
                    ex.trials[-1].cb = len(ex.cbs) - 1
                    ex.trials[-1].solver_rho_cb = float(solver.rho)
                ex.log(("cb", len(ex.cbs), bool(acc)))

            handles.append(solver.callbacks.register(CallbackType.ComputedStep, rec))
            for name in obs.get("callbacks", ()):
                if name == "touch":
                    handles.append(solver.callbacks.register(CallbackType.ComputedStep, _touch))
                if name == "scribble":
                    # an observer that re-uses *its own* arrays - the ones the caller passed to solve() - as scratch space
                    def scribble(it, nit, acc, _ex=ex):
                        for a_ in (_ex.x0_arg, _ex.y0_arg):
                            if isinstance(a_, np.ndarray) and a_.flags.writeable and a_.size:
                                a_[:] = 12345.678

                    handles.append(solver.callbacks.register(CallbackType.ComputedStep, scribble))
                if name == "oneshot":
                    # an observer that unregisters itself from inside its own notification
                    box = {}

                    def oneshot(it, nit, acc, _solver=solver, _box=box):
                        _box["n"] = _box.get("n", 0) + 1
                        if _box["n"] == 2 and _box.get("h") is not None:
                            _solver.callbacks.unregister(_box["h"])
                            _box["h"] = None

                    box["h"] = solver.callbacks.register(CallbackType.ComputedStep, oneshot)
                if name == "spawner":
                    # an observer that registers another observer while the solve is running
                    box2 = {}

                    def spawner(it, nit, acc, _solver=solver, _box=box2, _handles=handles):
                        _box["n"] = _box.get("n", 0) + 1
                        if _box["n"] == 2:
                            _handles.append(_solver.callbacks.register(CallbackType.ComputedStep, lambda a, b, c: None))

                    handles.append(solver.callbacks.register(CallbackType.ComputedStep, spawner))
                if name == "reenter":
                    # an observer that uses the solver's own public single-step API while the solve
                    # is in progress (on private copies of the current point)
                    def reenter(it, nit, acc, _solver=solver, _ex=ex, _tr=None):
                        _ex.nested += 1
                        try:
                            rt_ = _ex.ref_transform()
                            ux, uy, _ = rt_.to_user(np.array(it.x, copy=True), np.array(it.y, copy=True), np.zeros_like(it.x))
                            _solver.perform_iteration(ux, uy)
                        except Exception:  # noqa  observers must not die
                            pass
                        finally:
                            _ex.nested -= 1

                    handles.append(solver.callbacks.register(CallbackType.ComputedStep, reenter))
        ex.x0_arg, ex.y0_arg = x0.copy(), y0.copy()
        if start_buffers is not None and start_buffers[0].shape == x0.shape and start_buffers[1].shape == y0.shape:
            start_buffers[0][:] = x0
            start_buffers[1][:] = y0
            ex.x0_arg, ex.y0_arg = start_buffers
        _CURRENT["ex"] = ex
        if isinstance(solver, RecordingSolver) and getattr(solver.params, "step_solver", None) is None:
            solver.params.step_solver = _recording_step_solver
        psnap = _params_snapshot(ex.params) if ex.params is not None and not isinstance(ex.params, str) else None
        # fault positions and per-solve records count from solve.begin, also on a re-used device
        problem.count = {c: 0 for c in problem.count}
        problem.fired = []
        problem.oob = []
        problem.calls = []
        problem.armed = True
        problem.phase = "presolve"
        # virtual time may pass between building the solver and calling solve()
        clock.t += float((world.get("clock") or {}).get("gap_before_solve", 0.0))
        ex.t_begin = clock.t
        ex.reads_at_begin = clock.n
        ex.log(("solve.begin",))
        try:
            sf = world.get("start_form") or {}
            # solve() also takes no start (None = the origin clipped to the box / zero multipliers) and scalars
            if x0_given or y0_given:
                sf = {k_: v_ for k_, v_ in sf.items() if not ((k_ == "x" and x0_given) or (k_ == "y" and y0_given))}
            if sf.get("x") == "int" and np.all(x0 == np.round(x0)) and np.all(np.abs(x0) < 2.0**62):
                ex.x0_arg = x0.astype(np.int64)  # a start written with integer literals
            xa = None if sf.get("x") == "none" else (float(x0[0]) if sf.get("x") == "scalar" and x0.size else ex.x0_arg)
            ya = None if sf.get("y") == "none" else (float(y0[0]) if sf.get("y") == "scalar" and y0.size else ex.y0_arg)
            r = solver.solve(xa, ya)
        finally:
            problem.armed = False
            ex.finished = True
            if psnap is not None:
                after = _params_snapshot(ex.params)
                ex.params_changed = sorted(k for k in set(psnap) | set(after) if psnap.get(k) != after.get(k))
            if isinstance(solver, RecordingSolver) and not keep_callbacks:
                for h in handles:
                    solver.callbacks.unregister(h)
        ex.result = r
        ex.status = r.status.name
        ex.log(("solve.end", ex.status, r.x.tobytes(), r.y.tobytes(), r.d.tobytes(), int(r.iterations), int(r.num_accepted_steps)))
    except (Exception, SimAbort) as e:  # classified by the oracles, never swallowed
        ex.aborted = isinstance(e, SimAbort)
        ex.exc = e
        ex.exc_type = type(e).__name__
        ex.exc_msg = str(e)
        ex.exc_func, ex.exc_chain = _innermost(e)
        ex.log(("solve.exc", ex.exc_type, ex.exc_func))
    ex.lin_fired = list(LIN.fired)
    ex.lin_counts = (LIN.n_factor, LIN.n_solve, LIN.n_obs_solve)
    ex.lin_nonfinite = LIN.nonfinite_returns
    ex.lin_inner_counts = dict(LIN.n_inner)
    ex.lin_inner_reports = list(LIN.inner_reports)
    if alias:
        problem._check_handed("solve.end", full=True)
    return ex
