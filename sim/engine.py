"""Search engine: seeded batches of worlds, forked executions with wall limits,
violation classification (known findings), shrinking, replay files, evidence."""
import copy
import faulthandler
import json
import os
import pickle
import select
import signal
import sys
import time
import traceback
from collections import Counter

from .util import canon, dumps, to_jsonable, world_key

VERIF = os.path.dirname(os.path.dirname(os.path.abspath(__file__)))
WORKERS = int(os.environ.get("VERIF_WORKERS", "16"))


# --------------------------------------------------------------------------
# forked execution pool


def _child(func, arg, wfd, limit):
    try:
        # SIGALRM watchdog (not faulthandler.dump_traceback_later: its watchdog *thread*
        # deadlocks the nested forks that history-style cases make)
        def _on_alarm(signum, frame):
            faulthandler.dump_traceback(file=sys.stderr)
            os._exit(3)

        signal.signal(signal.SIGALRM, _on_alarm)
        signal.alarm(int(limit) + 5)
        try:
            res = ("ok", func(arg))
        except BaseException as e:  # harness error, reported as such
            res = ("error", "%s: %s\n%s" % (type(e).__name__, e, traceback.format_exc()))
        data = pickle.dumps(res, protocol=4)
        off = 0
        while off < len(data):
            off += os.write(wfd, data[off : off + 65536])
        os.close(wfd)
    finally:
        os._exit(0)


def run_forked(func, args, workers=None, limit=60.0, deadline=None):
    """Run func(arg) for each arg in its own forked child (pristine module state,
    hard wall limit).  Yields (index, kind, payload) with kind in
    ok | error | timeout | skipped, in completion order."""
    workers = workers or WORKERS
    args = list(args)
    nxt = 0
    live = {}  # rfd -> (idx, pid, start, chunks)
    while nxt < len(args) or live:
        while nxt < len(args) and len(live) < workers:
            if deadline is not None and time.time() > deadline:
                for i in range(nxt, len(args)):
                    yield (i, "skipped", None)
                nxt = len(args)
                break
            rfd, wfd = os.pipe()
            sys.stdout.flush()
            sys.stderr.flush()
            pid = os.fork()
            if pid == 0:
                os.close(rfd)
                for fd in list(live):
                    try:
                        os.close(fd)
                    except OSError:
                        pass
                _child(func, args[nxt], wfd, limit)
            os.close(wfd)
            live[rfd] = (nxt, pid, time.time(), [])
            nxt += 1
        if not live:
            break
        ready, _, _ = select.select(list(live), [], [], 0.25)
        now = time.time()
        for rfd in ready:
            idx, pid, st, chunks = live[rfd]
            data = os.read(rfd, 1 << 20)
            if data:
                chunks.append(data)
                continue
            os.close(rfd)
            del live[rfd]
            os.waitpid(pid, 0)
            blob = b"".join(chunks)
            if not blob:
                yield (idx, "error", "child died without a result")
                continue
            try:
                kind, payload = pickle.loads(blob)
            except Exception as e:  # noqa
                yield (idx, "error", "unreadable child result: %r" % (e,))
                continue
            yield (idx, kind, payload)
        for rfd in list(live):
            idx, pid, st, chunks = live[rfd]
            if now - st > limit:
                try:
                    os.kill(pid, signal.SIGKILL)
                except OSError:
                    pass
                os.waitpid(pid, 0)
                os.close(rfd)
                del live[rfd]
                yield (idx, "timeout", None)


def run_one_forked(func, arg, limit=60.0):
    for (_, kind, payload) in run_forked(func, [arg], workers=1, limit=limit):
        return kind, payload
    return "error", "no result"


# --------------------------------------------------------------------------
# known findings


def load_known():
    p = os.path.join(VERIF, "known_findings.json")
    if not os.path.exists(p):
        return []
    with open(p) as f:
        return json.load(f).get("findings", [])


PARAM_DEFAULTS = {
    "newton_type": "Simplified",
    "step_solver_type": "Symmetric",
    "linear_solver_type": "LU",
    "step_control_type": "DistanceRatio",
    "penalty_update": "DualNorm",
    "active_set_type": "Standard",
    "scaling_type": "NoScaling",
    "report_rcond": False,
    "collect_path": False,
}


def known_match(prop, viol, world, known):
    for k in known:
        if k.get("property") != prop or k.get("state") != "open":
            continue
        if "sig" in k and k["sig"] != viol.get("sig"):
            continue
        if "sig_prefix" in k and not any(str(viol.get("sig", "")).startswith(pf) for pf in k["sig_prefix"]):
            continue
        if "sig" not in k and "sig_prefix" not in k:
            continue
        ok = True
        params = world.get("params", {})
        for key, allowed in (k.get("where") or {}).items():
            if key.startswith("obs."):
                v = world.get("obs", {}).get(key[4:])
            else:
                v = params.get(key, PARAM_DEFAULTS.get(key))
            if v not in allowed:
                ok = False
        for key, allowed in (k.get("where_ctx") or {}).items():
            if (viol.get("ctx") or {}).get(key) not in allowed:
                ok = False
        if ok:
            return k
    return None


# --------------------------------------------------------------------------
# shrinking (greedy delta debugging over the world document)


def _del_var(world, j):
    w = copy.deepcopy(world)
    p = w["problem"]
    n = p["n"]
    if n <= 1:
        return None
    keep = [i for i in range(n) if i != j]
    p["Q"] = [[p["Q"][a][b] for b in keep] for a in keep]
    for k in ("q", "a", "xl", "xu"):
        p[k] = [p[k][i] for i in keep]
    for k in ("A", "B"):
        p[k] = [[row[i] for i in keep] for row in p[k]]
    if p.get("dom"):
        p["dom"] = {"w": [p["dom"]["w"][i] for i in keep], "lo": [p["dom"]["lo"][i] for i in keep]}
    if p.get("expo"):
        p["expo"] = {"k": [p["expo"]["k"][i] for i in keep], "s": [p["expo"]["s"][i] for i in keep]}
    p["n"] = n - 1
    w["x0"] = [w["x0"][i] for i in keep]
    sc = w["params"].get("scaling")
    if sc:
        sc["var"] = [sc["var"][i] for i in keep]
    sp_ = w["params"].get("scaling_primal")
    if isinstance(sp_, list):
        w["params"]["scaling_primal"] = [sp_[i] for i in keep]
    for f in w.get("faults", []):
        if "region" in f:
            f["region"]["a"] = [f["region"]["a"][i] for i in keep]
        if "corrupt" in f:
            return None
    for op in (w.get("case") or {}).get("history", []):
        if "x0" in op:
            op["x0"] = [op["x0"][i] for i in keep]
    return w


def _del_con(world, i):
    w = copy.deepcopy(world)
    p = w["problem"]
    m = p["m"]
    if m <= 0:
        return None
    keep = [r for r in range(m) if r != i]
    for k in ("A", "B"):
        p[k] = [p[k][r] for r in keep]
    for k in ("b", "cl", "cu"):
        p[k] = [p[k][r] for r in keep]
    p["m"] = m - 1
    w["y0"] = [w["y0"][r] for r in keep]
    sc = w["params"].get("scaling")
    if sc:
        sc["cons"] = [sc["cons"][r] for r in keep]
    sd = w["params"].get("scaling_dual")
    if isinstance(sd, list):
        w["params"]["scaling_dual"] = [sd[r] for r in keep]
    for f in w.get("faults", []):
        if "corrupt" in f:
            return None
    for op in (w.get("case") or {}).get("history", []):
        if "y0" in op:
            op["y0"] = [op["y0"][r] for r in keep]
    return w


def _round_world(world, digits):
    w = copy.deepcopy(world)

    def rnd(v):
        if isinstance(v, list):
            return [rnd(x) for x in v]
        if isinstance(v, float) and v == v and abs(v) != float("inf"):
            return round(v, digits)
        return v

    p = w["problem"]
    for k in ("Q", "q", "a", "A", "B", "b"):
        p[k] = rnd(p[k])
    # keep Q symmetric
    n = p["n"]
    for a in range(n):
        for b in range(a):
            p["Q"][a][b] = p["Q"][b][a]
    return w


def candidates(world, viol):
    """Simpler worlds, most aggressive first."""
    sub = viol.get("sub")
    if sub is not None and (world.get("case") or {}).get("only") != sub:
        w = copy.deepcopy(world)
        w.setdefault("case", {})["only"] = sub
        yield "restrict-to-subcase", w
    faults = world.get("faults", [])
    if len(faults) > 1:
        for i in range(len(faults)):
            w = copy.deepcopy(world)
            del w["faults"][i]
            yield "drop-fault-%d" % i, w
    hist = (world.get("case") or {}).get("history")
    if hist and len(hist) > 1:
        for i in range(len(hist)):
            w = copy.deepcopy(world)
            del w["case"]["history"][i]
            yield "drop-op-%d" % i, w
    groups = {
        "active_set_type": ("active_set_type", "active_set_tau"),
        "scaling_type": ("scaling_type", "scaling", "scaling_primal", "scaling_dual"),
    }
    params = world.get("params", {})
    for key in sorted(params):
        if key in ("active_set_tau", "scaling", "scaling_primal", "scaling_dual", "display_interval", "iteration_limit", "time_limit"):
            continue
        w = copy.deepcopy(world)
        for k in groups.get(key, (key,)):
            w["params"].pop(k, None)
        yield "default-" + key, w
    obs = world.get("obs", {})
    if obs.get("callbacks"):
        w = copy.deepcopy(world)
        w["obs"]["callbacks"] = []
        yield "no-callbacks", w
    if obs.get("level", "CRITICAL") != "CRITICAL":
        w = copy.deepcopy(world)
        w["obs"]["level"] = "CRITICAL"
        yield "level-critical", w
    clk = world.get("clock", {})
    if clk.get("steps") or clk.get("tail"):
        w = copy.deepcopy(world)
        w["clock"] = {"steps": [], "tail": 0.0}
        yield "const-clock", w
    p = world.get("problem")
    if p is None:
        return
    for i in reversed(range(p["m"])):
        w = _del_con(world, i)
        if w is not None:
            yield "drop-row-%d" % i, w
    for j in reversed(range(p["n"])):
        w = _del_var(world, j)
        if w is not None:
            yield "drop-var-%d" % j, w
    if any(p["a"]):
        w = copy.deepcopy(world)
        w["problem"]["a"] = [0.0] * p["n"]
        yield "no-quartic", w
    if any(any(r) for r in p["B"]):
        w = copy.deepcopy(world)
        w["problem"]["B"] = [[0.0] * p["n"] for _ in range(p["m"])]
        yield "affine-rows", w
    if p.get("dom"):
        w = copy.deepcopy(world)
        w["problem"]["dom"] = None
        yield "no-domain-term", w
    if p.get("policy", "fresh") != "fresh" and not (world.get("case") or {}).get("keep_policy"):
        w = copy.deepcopy(world)
        w["problem"]["policy"] = "fresh"
        yield "fresh-policy", w
    for digits in (1, 2):
        w = _round_world(world, digits)
        if canon(w) != canon(world):
            yield "round-%d" % digits, w
            break
    il = params.get("iteration_limit")
    t = (viol.get("ctx") or {}).get("t")
    if il is not None and t is not None and il > t + 2:
        w = copy.deepcopy(world)
        w["params"]["iteration_limit"] = int(t) + 2
        yield "shorten", w


def shrink(case_func, world, viol, budget=150, limit=60.0, wall=240.0, verbose=False):
    """Greedy: accept the first candidate (in priority order) that reproduces
    the same violation signature; repeat until a fixpoint or the budget ends."""
    sig = viol["sig"]
    tried = 0
    steps = []
    t0 = time.time()
    cur, curv = world, viol
    progress = True
    while progress and tried < budget and time.time() - t0 < wall:
        progress = False
        cands = list(candidates(cur, curv))
        if not cands:
            break
        cands = cands[: max(0, budget - tried)]
        results = {}
        for (idx, kind, payload) in run_forked(case_func, [c[1] for c in cands], limit=limit):
            results[idx] = (kind, payload)
        tried += len(cands)
        for idx in range(len(cands)):
            kind, payload = results.get(idx, ("error", None))
            if kind != "ok":
                continue
            same = [v for v in payload.get("violations", []) if v["sig"] == sig]
            if same:
                cur, curv = cands[idx][1], same[0]
                steps.append(cands[idx][0])
                progress = True
                break
    return cur, curv, steps, tried


# --------------------------------------------------------------------------
# batch driver


class Outcome:
    def __init__(self):
        self.evaluations = 0
        self.executions = 0
        self.stats = Counter()
        self.keys = set()
        self.samples = []
        self.violations = []  # (world, viol)
        self.known_hits = Counter()
        self.known_what = {}
        self.inconclusive = []
        self.errors = []
        self.skipped = 0
        self.virtual_seconds = 0.0
        self.maxes = {}


def run_batch(mod, worlds, limit=60.0, deadline=None, known=None, stop_after_violation=True):
    out = Outcome()
    known = known if known is not None else load_known()
    worlds = [json.loads(dumps(w)) for w in worlds]
    for (idx, kind, payload) in run_forked(mod.case, worlds, limit=limit, deadline=deadline):
        w = worlds[idx]
        if kind == "skipped":
            out.skipped += 1
            continue
        if kind == "timeout":
            out.inconclusive.append({"index": w.get("index"), "key": world_key(w)})
            continue
        if kind == "error":
            out.errors.append({"index": w.get("index"), "error": str(payload)[-1500:]})
            continue
        out.evaluations += 1
        out.executions += int(payload.get("executions", 1))
        out.virtual_seconds += float(payload.get("virtual_seconds", 0.0))
        for k, v in (payload.get("stats") or {}).items():
            out.stats[k] += v
        for k, v in (payload.get("max") or {}).items():
            out.maxes[k] = max(out.maxes.get(k, v), v)
        for k in payload.get("keys") or ():
            out.keys.add(k)
        if payload.get("sample") is not None and len(out.samples) < 4:
            out.samples.append(payload["sample"])
        for v in payload.get("violations") or ():
            k = known_match(mod.ID, v, w, known)
            if k is not None:
                out.known_hits[k["id"]] += 1
                out.known_what[k["id"]] = k["what"]
            else:
                out.violations.append((w, v))
    return out


def write_replay(prop, world, viol, steps, tag):
    d = os.path.join(VERIF, "replays")
    os.makedirs(d, exist_ok=True)
    path = os.path.join(d, "%s-%s-%s.json" % (prop, world.get("seed"), tag))
    doc = {
        "property": prop,
        "sig": viol["sig"],
        "clause": viol.get("clause"),
        "detail": viol.get("detail"),
        "ctx": viol.get("ctx"),
        "shrink_steps": steps,
        "world": world,
    }
    with open(path, "w") as f:
        f.write(dumps(doc, indent=1))
    return path


def write_evidence(mod, tier, seed, out, wall, extra=None):
    cov = {
        "evaluations": int(out.executions),
        "worlds": int(out.evaluations),
        "distinct_nontrivial": int(len(out.keys)),
        "rule": mod.RULE,
        "samples": to_jsonable(out.samples[:4]) or ["(no sample: every world was inconclusive)"],
        "executions": int(out.executions),
        "executions_per_hour": (out.executions / wall * 3600.0) if wall > 0 else 0.0,
        "worlds_per_hour": (out.evaluations / wall * 3600.0) if wall > 0 else 0.0,
        "simulated_seconds": float(out.virtual_seconds),
        "stats": dict(sorted(out.stats.items())),
        "max": dict(sorted(out.maxes.items())),
        "fault_kinds_fired": {k[6:]: v for k, v in sorted(out.stats.items()) if k.startswith("fired.")},
        "inconclusive_worlds": len(out.inconclusive),
        "harness_errors": len(out.errors),
        "skipped_for_wall_budget": int(out.skipped),
        "known_findings_hit": dict(out.known_hits),
        "real_components": ["pygradflow (all of it, from /repo's working tree)", "numpy", "scipy (SuperLU, GMRES, MINRES)"],
        "stub_components": ["wall clock (pygradflow.timer.time -> VirtualClock)", "user problem callbacks (SimProblem device)", "logging sink", "linear-solver classes wrapped by a logging/fault proxy (real solver behind it)"],
        "exhaustive": False,
    }
    if extra:
        cov.update(extra)
    doc = {
        "property_id": mod.ID,
        "tier": tier,
        "seed": int(seed),
        "level": mod.LEVEL,
        "coverage": cov,
        "assumptions": list(getattr(mod, "ASSUMPTIONS", [])),
        "wall_s": float(wall),
        "violations": len(out.violations),
    }
    d = os.path.join(VERIF, "evidence")
    alt = os.environ.get("PGF_REPO")
    if alt and os.path.realpath(alt) != os.path.realpath("/repo"):
        # a run against a scratch copy (sensitivity / soundness tools) is not evidence about /repo
        import tempfile

        d = os.path.join(tempfile.gettempdir(), "pgf-scratch-evidence")
    os.makedirs(d, exist_ok=True)
    with open(os.path.join(d, mod.ID + ".json"), "w") as f:
        f.write(dumps(doc, indent=1))
    return doc


def check_property(mod, tier, seed, n_worlds=None, wall_budget=None, verbose=True):
    t0 = time.time()
    cfg = mod.TIERS[tier]
    n = n_worlds or cfg["worlds"]
    budget = wall_budget or cfg.get("wall", 600)
    limit = cfg.get("limit", 60.0)
    print("seed=%d property=%s tier=%s worlds=%d" % (seed, mod.ID, tier, n), flush=True)
    from .gen import rng_for

    worlds = []
    for i in range(n):
        rng = rng_for(seed, mod.ID, i)
        worlds.append(mod.generate(rng, seed, i, tier))
    out = run_batch(mod, worlds, limit=limit, deadline=t0 + budget)
    print("batch finished after %.1fs" % (time.time() - t0), flush=True)
    rc = 0
    # sanity gates: lost seams / vacuous batches are harness failures, not passes
    msgs = []
    total = out.evaluations + len(out.inconclusive) + len(out.errors)
    if out.errors:
        msgs.append("harness errors in %d worlds; first: %s" % (len(out.errors), out.errors[0]["error"][-800:]))
        rc = 3
    if total and len(out.inconclusive) > max(1, 0.02 * total):
        msgs.append("%d of %d worlds inconclusive (wall limit)" % (len(out.inconclusive), total))
        rc = 3
    for gate in getattr(mod, "GATES", ()):
        if out.stats.get(gate, 0) <= 0:
            msgs.append("reach probe %r is zero: the batch was vacuous for it" % gate)
            rc = 3
    if out.evaluations == 0:
        msgs.append("no world was evaluated")
        rc = 3
    for kid, cnt in sorted(out.known_hits.items()):
        print("KNOWN-FINDING: property=%s %s [%s, %d worlds]" % (mod.ID, out.known_what[kid], kid, cnt), flush=True)
    replay_paths = []
    if out.violations:
        rc = 1
        seen = set()
        for (w, v) in out.violations:
            if v["sig"] in seen:
                continue
            seen.add(v["sig"])
            if len(seen) > 3:
                break
            if verbose:
                print("violation sig=%s detail=%s (world index %s); shrinking..." % (v["sig"], v.get("detail"), w.get("index")), flush=True)
            try:
                sw, sv, steps, tried = shrink(mod.case, w, v, budget=cfg.get("shrink_budget", 120), limit=min(limit, cfg.get("shrink_limit", 25.0)), wall=cfg.get("shrink_wall", 90.0))
            except Exception as e:  # noqa
                sw, sv, steps, tried = w, v, ["shrink failed: %r" % (e,)], 0
            path = write_replay(mod.ID, sw, sv, steps, "%s-%d" % (world_key(sw)[:8], len(seen)))
            replay_paths.append(path)
            print("VIOLATION property=%s replay=%s" % (mod.ID, path), flush=True)
            print("  clause=%s sig=%s detail=%s shrink=%d steps/%d candidates" % (sv.get("clause"), sv["sig"], sv.get("detail"), len(steps), tried), flush=True)
    wall = time.time() - t0
    write_evidence(mod, tier, seed, out, wall, extra={"replays": replay_paths, "gate_messages": msgs})
    for m in msgs:
        print("HARNESS: " + m, flush=True)
    print(
        "done property=%s worlds=%d executions=%d distinct_nontrivial=%d violations=%d known=%d inconclusive=%d wall=%.1fs rc=%d"
        % (mod.ID, out.evaluations, out.executions, len(out.keys), len(out.violations), sum(out.known_hits.values()), len(out.inconclusive), wall, rc),
        flush=True,
    )
    return rc


def replay(mod, path):
    with open(path) as f:
        doc = json.load(f)
    world = doc["world"]
    kind, payload = run_one_forked(mod.case, world, limit=300.0)
    if kind != "ok":
        print("HARNESS: replay could not run: %s %s" % (kind, payload))
        return 3
    same = [v for v in payload.get("violations", []) if v["sig"] == doc["sig"]]
    if same:
        k = known_match(mod.ID, same[0], world, load_known())
        if k is not None:
            print("KNOWN-FINDING: property=%s %s [%s]" % (mod.ID, k["what"], k["id"]))
            return 0
        print("VIOLATION property=%s replay=%s" % (mod.ID, path))
        print("  reproduced: clause=%s detail=%s" % (same[0].get("clause"), same[0].get("detail")))
        return 1
    print("replay did not reproduce sig=%s (violations now: %s)" % (doc["sig"], [v["sig"] for v in payload.get("violations", [])]))
    return 0
