"""C04 -- the internally solved problem is an exact reformulation of the user's problem.
Refinement at the callback-device boundary: what the core algorithm sees on the
iterates of a run (and at seeded probe points) must equal the reference
transformation of what the device returns, value for value with no tolerance."""
import numpy as np

from .. import gen
from ..model import RefTransform, weights_of
from ..runner import execute
from .common import V, knob_key, seam_violations, small_sample

ID = "C04"
LEVEL = "exploration"
RULE = (
    "world = generated problem with all row kinds (equalities with zero and non-zero right-hand side, one-sided, ranged), all sparse "
    "formats and return policies, data scaled by a per-world power of two x every scaling type (Custom incl. objective weight, Nominal, "
    "GradJac, KKT, none); a short simulated run provides the iterates the core algorithm really visited, seeded probe operations add "
    "random internal points (also outside the box) and multipliers; objective, gradient, constraints, Jacobian, Hessian, bounds, start "
    "slacks and the round trip user->internal->user are compared with the reference transformation exactly (== on every entry); a world "
    "is non-trivial when it has a slack row or an offset row or non-zero weights; distinct = distinct (weights, row kinds, trajectory digest)"
)
ASSUMPTIONS = [
    "exact comparison uses == on every entry (signed zeros of structural zeros are not distinguished); weights |w| <= 100 and data magnitudes within 2^+-40, so no overflow/underflow of a double occurs",
]
TIERS = {"quick": {"worlds": 4500, "wall": 150, "limit": 60.0}, "thorough": {"worlds": 60000, "wall": 1700, "limit": 120.0}}
GATES = ("nontrivial", "worlds.int_bounds", "worlds.dup_coo", "worlds.narrow_weight_dtype", "worlds.start_none_or_scalar", "worlds.shuffled_coo_order", "worlds.int_dtype", "points.run_iterates", "points.probes", "scaling.Custom", "scaling.Nominal", "scaling.GradJac", "scaling.KKT", "rows.offset", "rows.slack")


def generate(rng, seed, index, tier):
    fam = str(rng.choice(["qp", "nlp", "domain"], p=[0.4, 0.5, 0.1]))
    spec, x0, y0 = gen.gen_problem(rng, fam, mmax=4)
    if rng.random() < 0.5:
        k = int(rng.integers(-6, 7))
        for key in ("Q", "q", "a", "A", "B", "b"):
            spec[key] = np.ldexp(np.asarray(spec[key], float), k)
        spec["cl"] = np.ldexp(np.asarray(spec["cl"], float), k)
        spec["cu"] = np.ldexp(np.asarray(spec["cu"], float), k)
    if rng.random() < 0.15:
        # integer-valued constant Jacobian / Hessian returned with an integer dtype
        spec["A"] = np.round(np.asarray(spec["A"], float) * 2)
        spec["B"] = np.zeros_like(np.asarray(spec["B"], float))
        spec["Q"] = np.round(np.asarray(spec["Q"], float))
        spec["a"] = np.zeros(spec["n"])
        spec["dom"] = None
        spec["int_dtype"] = True
    if rng.random() < 0.3:
        spec["shuffle"] = True
    spec["policy"] = str(rng.choice(["fresh", "cached", "memo", "retain"], p=[0.3, 0.25, 0.25, 0.2]))
    if rng.random() < 0.2:
        spec["dup"] = True  # COO results with repeated positions (entries are sums of contributions)
    if fam in ("qp", "nlp") and rng.random() < 0.12:
        x0 = gen.integer_bounds(rng, spec, x0)  # bound arrays of integer dtype
    if fam in ("qp", "nlp") and rng.random() < 0.1:
        # big-M style bounds: finite, huge (up to 9e19), far from anything the iterates reach
        for key, sgn in (("xl", -1.0), ("xu", 1.0), ("cl", -1.0), ("cu", 1.0)):
            v = np.array(spec[key], float)
            for i in range(v.size):
                if rng.random() < 0.4 and not (key in ("cl", "cu") and spec["cl"][i] == spec["cu"][i]) and not (key in ("xl", "xu") and spec["xl"][i] == spec["xu"][i]):
                    v[i] = sgn * float(rng.choice([1e15, 4e18, 9e19]))
            spec[key] = v
        x0 = np.clip(x0, spec["xl"], spec["xu"])
        spec["huge_bounds"] = True
    y0 = np.round(rng.normal(size=spec["m"]), 3)
    x0, y0, sform = gen.start_forms(rng, spec, x0, y0, p=0.1)
    kw = {}
    st = str(rng.choice(["NoScaling", "Custom", "Nominal", "GradJac", "KKT"], p=[0.1, 0.45, 0.15, 0.15, 0.15]))
    if st != "NoScaling":
        kw["scaling_type"] = st
        if st == "Custom":
            wmax = 8
            wdt = "int64"
            if rng.random() < 0.3:
                # the weight arrays may carry any integer dtype; large (still harmless: data * 2^(3*45) is far from overflow) weights
                wdt = str(rng.choice(["int8", "int16", "int32"]))
                wmax = int(rng.choice([8, 45, 100 if wdt == "int8" else 45]))
            kw["scaling"] = {"var": rng.integers(-wmax, wmax + 1, size=spec["n"]).tolist(), "cons": rng.integers(-wmax, wmax + 1, size=spec["m"]).tolist(), "obj": int(rng.integers(-wmax, wmax + 1)), "dtype": wdt}
            u_ = rng.random()
            if u_ < 0.1:
                # rows-only scaling: variable exponents and the objective exponent are zero
                kw["scaling"]["var"] = [0] * spec["n"]
                kw["scaling"]["obj"] = 0
            elif u_ < 0.32:
                # variables-only scaling: row exponents and the objective exponent are zero
                kw["scaling"]["cons"] = [0] * spec["m"]
                kw["scaling"]["obj"] = 0
            if u_ >= 0.1 and u_ < 0.22:
                # objective-only scaling: every variable / row exponent is zero
                kw["scaling"]["var"] = [0] * spec["n"]
                kw["scaling"]["cons"] = [0] * spec["m"]
                kw["scaling"]["obj"] = int(rng.choice([-6, -3, -1, 1, 2, 5]))
        else:
            kw["scaling_primal"] = "x0"
            kw["scaling_dual"] = "y0"
    for k_ in ("newton_type", "step_solver_type", "step_control_type"):
        if rng.random() < 0.3:
            kw[k_] = {"newton_type": ["Simplified", "Full", "ActiveSet"], "step_solver_type": ["Standard", "Extended", "Symmetric", "Asymmetric"], "step_control_type": ["Exact", "ResiduumRatio", "DistanceRatio"]}[k_][int(rng.integers(0, 3))]
    kw["iteration_limit"] = int(rng.integers(2, 12))
    kw = gen.quiet_params(kw)
    probes = []
    for _ in range(4):
        probes.append({"x": np.round(rng.normal(size=spec["n"] + spec["m"]) * 3, 3).tolist(), "y": np.round(rng.normal(size=spec["m"]) * 2, 3).tolist()})
    return gen.base_world(seed, ID, index, spec, x0, y0, kw, case={"probes": probes}, start_form=sform)


def _eq(a, b):
    a = np.asarray(a.toarray() if hasattr(a, "toarray") else a, dtype=float)
    b = np.asarray(b, dtype=float)
    return a.shape == b.shape and bool(np.array_equal(a, b))


def compare_at(tp, rt, xi, y, where, sub, out, comps=("obj", "grad", "cons", "jac", "hess")):
    with np.errstate(all="ignore"):
        if "obj" in comps:
            a, b = tp.obj(xi), rt.f(xi)
            if not (a == b or (np.isnan(a) and np.isnan(b))):
                out.append(V(ID, "objective", "%s: internal objective %r != reference %r" % (where, a, b), sub, {}))
        if "grad" in comps and not _eq(tp.obj_grad(xi), rt.g(xi)):
            out.append(V(ID, "gradient", "%s: internal gradient differs from the reference transformation" % where, sub, {}))
        if rt.um.m > 0:
            if "cons" in comps and not _eq(tp.cons(xi), rt.c(xi)):
                out.append(V(ID, "constraints", "%s: internal constraint values differ from the reference transformation" % where, sub, {}))
            if "jac" in comps and not _eq(tp.cons_jac(xi), rt.J(xi)):
                out.append(V(ID, "jacobian", "%s: internal Jacobian differs from the reference transformation" % where, sub, {}))
        if "hess" in comps and not _eq(tp.lag_hess(xi, y), rt.H(xi, y)):
            out.append(V(ID, "hessian", "%s: internal Lagrangian Hessian differs from the reference transformation" % where, sub, {}))


def case(world):
    stats = {}

    def bump(k, n=1):
        stats[k] = stats.get(k, 0) + n

    ex = execute(world)
    seam_violations(ex, ID)
    viol, keys = [], []
    if ex.solver is None or getattr(ex.solver, "transform", None) is None:
        bump("construction_failed." + ex.outcome)
        return {"violations": [], "stats": stats, "keys": [], "executions": 1, "sample": None}
    um = ex.problem.um
    tr = ex.solver.transform
    wv, wc, wo = weights_of(tr.scaling, um.n, um.m)
    rt = RefTransform(um, wv, wc, wo)
    tp = tr.trans_problem
    st = world["params"].get("scaling_type", "NoScaling")
    bump("scaling." + st)
    if world["problem"].get("int_dtype"):
        bump("worlds.int_dtype")
    if world["problem"].get("shuffle") and world["problem"].get("fmt") == "coo":
        bump("worlds.shuffled_coo_order")
    if world["problem"].get("int_bounds"):
        bump("worlds.int_bounds")
    if world["problem"].get("dup") and world["problem"].get("fmt") == "coo":
        bump("worlds.dup_coo")
    if (world["params"].get("scaling") or {}).get("dtype", "int64") != "int64":
        bump("worlds.narrow_weight_dtype")
    if world.get("start_form"):
        bump("worlds.start_none_or_scalar")
    if rt.ns:
        bump("rows.slack")
    if np.any(rt.off != 0):
        bump("rows.offset")
    sub = None
    # bounds of the internal problem
    if not (_eq(tp.var_lb, rt.lb) and _eq(tp.var_ub, rt.ub)):
        viol.append(V(ID, "bounds", "internal variable/slack bounds differ from the scaled user bounds", sub, {}))
    if tp.num_vars != rt.N or tp.num_cons != um.m:
        viol.append(V(ID, "shape", "internal problem has %d variables / %d rows, expected %d / %d (rows with l != u get a slack, rows with l == u an offset)" % (tp.num_vars, tp.num_cons, rt.N, um.m), sub, {}))
        for v in viol:
            v["ctx"] = {"scaling": st, "fmt": world["problem"]["fmt"], "policy": world["problem"]["policy"]}
        seen_c, vv = set(), []
        for v in viol:
            if v["sig"] not in seen_c:
                seen_c.add(v["sig"])
                vv.append(v)
        return {"violations": vv, "stats": stats, "keys": [], "executions": 1, "sample": small_sample(world)}
    # start: slacks are the projection of c(x0), multipliers scaled
    xi0, yi0 = rt.to_internal(ex.x0, ex.y0)
    xs, ys = tr.transform_sol(ex.x0.copy(), ex.y0.copy())
    if not (_eq(xs, xi0) and _eq(ys, yi0)):
        viol.append(V(ID, "start", "transformed start differs from (scaled x0, clip(c_s(x0), l_s, u_s), scaled y0)", sub, {}))
    # a second solve on the same solver object from the same x0 with other multipliers: what the core starts from
    # is the transformation of *that* start
    if um.m and ex.trials and (world.get("case") or {}).get("restart_y", True):
        y2 = ex.y0 + 1.0
        ex2 = execute(world, problem=ex.problem, solver=ex.solver, y0=y2)
        bump("restarts.other_multipliers")
        if ex2.trials:
            xi2, yi2 = rt.to_internal(ex.x0, y2)
            t0 = ex2.trials[0].inp
            if t0.x.shape == xi2.shape and not (_eq(t0.x, xi2) and _eq(t0.y, yi2)):
                viol.append(V(ID, "start", "second solve on the same solver: the first step does not start from the transformation of the new (x0, y0)", sub, {}))
    # round trip
    dz = np.zeros(rt.N)
    xr, yr, dr = tr.restore_sol(xs, ys, dz)
    if not (_eq(xr, ex.x0) and _eq(yr, ex.y0)):
        viol.append(V(ID, "round-trip", "user -> internal -> user does not return the original x, y", sub, {}))
    # iterates of the run: cached values the core algorithm really used
    seen = set()
    for cb in ex.cbs:
        for it in (cb[0], cb[1]):
            if id(it) in seen:
                continue
            seen.add(id(it))
            bump("points.run_iterates")
            with np.errstate(all="ignore"):
                try:
                    vals = (it.obj, it.obj_grad, it.cons, it.cons_jac)
                except Exception:
                    continue  # a trial point where the user's function is not finite
                if not (vals[0] == rt.f(it.x)):
                    viol.append(V(ID, "objective", "iterate of the run: cached objective != reference", sub, {}))
                if not _eq(vals[1], rt.g(it.x)):
                    viol.append(V(ID, "gradient", "iterate of the run: cached gradient != reference", sub, {}))
                if um.m > 0:
                    if not _eq(vals[2], rt.c(it.x)):
                        viol.append(V(ID, "constraints", "iterate of the run: cached constraints != reference", sub, {}))
                    if not _eq(vals[3], rt.J(it.x)):
                        viol.append(V(ID, "jacobian", "iterate of the run: cached Jacobian != reference", sub, {}))
                try:
                    H = it.lag_hess(it.y)
                except Exception:
                    continue
                if not _eq(H, rt.H(it.x, it.y)):
                    viol.append(V(ID, "hessian", "iterate of the run: Hessian at (x, y) != reference", sub, {}))
            if len(viol) > 6:
                break
    # probe operations: arbitrary internal points (also outside the box) and multipliers
    for pi, pr in enumerate(world["case"].get("probes", [])):
        xi = np.array(pr["x"], float)[: rt.N]
        if xi.size < rt.N:
            continue
        y = np.array(pr["y"], float)
        if um.dom is not None:
            xi = np.clip(xi, rt.lb, rt.ub)  # the domain family is only defined on its box
            xi = np.where(np.isfinite(xi), xi, 0.0)
        bump("points.probes")
        compare_at(tp, rt, xi, y, "probe %d" % pi, sub, viol)
        if len(viol) > 6:
            break
    nt = bool(rt.ns or np.any(rt.off != 0) or np.any(wv) or np.any(wc) or wo)
    if nt:
        bump("nontrivial")
        keys.append("%s:%s:%s:%s" % (wv.tolist(), wc.tolist(), wo, ex.traj_digest()[:10]))
    # de-duplicate by clause
    seen_c, vv = set(), []
    for v in viol:
        if v["sig"] not in seen_c:
            seen_c.add(v["sig"])
            v["ctx"] = {"scaling": st, "fmt": world["problem"]["fmt"], "policy": world["problem"]["policy"]}
            vv.append(v)
    return {"violations": vv, "stats": stats, "keys": keys, "executions": 1, "sample": small_sample(world, {"weights": {"var": wv.tolist(), "cons": wc.tolist(), "obj": wo}, "probes": world["case"].get("probes", [])[:1]})}
