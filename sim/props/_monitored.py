"""Shared shape of the history-monitor properties (C12, C15, C16): one world,
a few executions (fault-free, faulted, stopped), one monitor over each log."""
import copy

import numpy as np

from .. import gen
from ..runner import execute
from .common import knob_key, seam_violations, small_sample

COMPS = ("obj", "grad", "cons", "jac", "hess")


def add_faults(rng, R, nmax=3):
    N = dict(R.problem.count)
    nf, ns = R.lin_counts[0], R.lin_counts[1]
    fs = []
    for _ in range(int(rng.integers(1, nmax + 1))):
        if rng.random() < 0.6:
            c = str(rng.choice(COMPS))
            if N.get(c, 0) <= 1:
                continue
            fs.append({"dev": "eval", "comp": c, "at": int(rng.integers(2, N[c] + 1)), "kind": str(rng.choice(["nan", "inf"])), "pos": int(rng.integers(0, 8))})
        else:
            op = str(rng.choice(["factor", "solve"]))
            cnt = nf if op == "factor" else ns
            if cnt == 0:
                continue
            fs.append({"dev": "lin", "op": op, "at": int(rng.integers(1, cnt + 1))})
    return fs


def run_case(world, prop, monitor, extra_monitors=(), key_fn=None, nontrivial_fn=None):
    """variants: 'plain' always; 'faulted' (positions drawn from the plain run's counts
    with the world's own seed); 'stopped' (time limit under the world's clock)."""
    only = (world.get("case") or {}).get("only")
    stats = {}

    def bump(k, n=1):
        stats[k] = stats.get(k, 0) + n

    viol, keys = [], []
    execs = 0
    vsec = 0.0
    R = execute(world)
    seam_violations(R, prop)
    execs += 1
    runs = [("plain", R, world)]
    rng = np.random.default_rng((world.get("case") or {}).get("pts_seed", 0))
    oc = R.outcome
    faultable = world["params"].get("validate_input", True) and (oc.startswith("status:") or oc.startswith("deliberate:Inverse")) and R.trials
    if (world.get("case") or {}).get("faulted") and faultable:
        fs = add_faults(rng, R)
        if fs:
            w = copy.deepcopy(world)
            w["faults"] = fs
            F = execute(w)
            execs += 1
            runs.append(("faulted", F, w))
    if (world.get("case") or {}).get("resolve") and R.solver is not None and R.trials:
        # the same solve once more on the same solver object and device
        # (half of the time from the same x0 with other starting multipliers)
        y2 = None
        if len(world["y0"]) and rng.random() < 0.5:
            y2 = np.asarray(world["y0"], float) + 1.0
        bufs = None
        if rng.random() < 0.5 and isinstance(R.x0_arg, np.ndarray) and R.x0_arg.flags.writeable:
            bufs = (R.x0_arg, R.y0_arg)  # the caller passes the very same arrays again (new values written in place)
        R2 = execute(world, problem=R.problem, solver=R.solver, y0=y2, start_buffers=bufs)
        execs += 1
        runs.append(("resolved", R2, world))
    if (world.get("case") or {}).get("foreign") and R.trials and (only is None or only == {"variant": "foreign"}):
        # two solver objects in one process: an observer stays registered on the first one while the
        # second one (its own problem object, same data) solves.  Each solver's steps must be announced
        # to its own observers only.
        from .common import V

        A = execute(world, keep_callbacks=True)
        nA = len(A.cbs)
        B = execute(world)
        execs += 2
        bump("foreign.pairs")
        runs.append(("foreign", B, world))
        if A.foreign_cbs or len(A.cbs) != nA:
            viol.append(V(prop, "callback-foreign", "an observer registered on one solver object was told about %d step computations of another solver object" % (A.foreign_cbs + len(A.cbs) - nA), {"variant": "foreign"}, {"knobs": knob_key(world), "variant": "foreign"}))
    for (name, ex, w) in runs:
        sub = {"variant": name}
        if only is not None and only != sub:
            continue
        vsec += ex.clock.t - ex.clock.t0
        bump(name + "." + ex.outcome.split("@")[0])
        if name == "resolved":
            bump("resolved.runs")
        bump("trials", len(ex.trials))
        bump("trials.with_step_hook", sum(1 for t in ex.trials if t.used))
        nfired = len(ex.problem.fired) + len([f for f in ex.lin_fired if f[0] != "obs_solve"])
        if nfired:
            bump("fired.total", nfired)
            for f in ex.problem.fired:
                bump("fired.eval." + f[1])
            for f in ex.lin_fired:
                bump("fired.lin." + f[0])
        if ex.outcome.startswith("crash"):
            # an internal crash is C06's (or C07's) subject; the history up to it is still checked
            bump("crashed_runs")
        vs = monitor(ex, sub)
        for m in extra_monitors:
            vs = vs + m(ex, sub)
        for v in vs:
            v["ctx"] = dict(v.get("ctx") or {}, knobs=knob_key(world), variant=name)
        viol += vs
        if nontrivial_fn is None or nontrivial_fn(ex, bump):
            keys.append((key_fn(ex) if key_fn else ex.traj_digest()[:16]) + ":" + name)
    sample = small_sample(world, {"plain_outcome": R.outcome, "trials": len(R.trials)})
    return {"violations": viol, "stats": stats, "keys": keys, "executions": execs, "sample": sample, "virtual_seconds": vsec}
