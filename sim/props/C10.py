"""C10 -- a solve is a deterministic function of its inputs, independent of history.
Histories: seeded sequences of solves in one process (solver objects re-used,
parameter objects shared -- including the module-level default Params --,
problems interleaved, previous solves aborted by limits, deadlines or errors).
Each solve is compared with the same solve executed alone in a pristine process."""
import copy

from .. import engine, gen
from ..runner import build_params, execute
from ..devices import SimProblem
from .common import V

ID = "C10"
LEVEL = "exploration"
RULE = (
    "world = pool of 1-3 generated problems, 1-3 parameter objects (one may be the shared default instance), 1-4 solver objects and "
    "a history of 2-7 solve operations (varying x0/y0, observers and clock plans; some ending by IterationLimit, TimeLimit under the "
    "virtual clock, the step-size error or an injected initial-point failure); every solve's trajectory digest is compared with the "
    "digest of the same solve run as the only operation of a freshly forked process; a solve is non-trivial when it is not the first "
    "operation of the process and ran >= 1 trial; distinct = distinct (isolated digest, position in history, digest of the preceding op)"
)
ASSUMPTIONS = [
    "the isolated twin is forked from the warm parent before any solve has run in it (pristine module state)",
    "callbacks registered by the harness are unregistered after each solve; the user does not mutate Params between solves",
]
TIERS = {
    "quick": {"worlds": 420, "wall": 150, "limit": 120.0},
    "thorough": {"worlds": 5000, "wall": 1700, "limit": 240.0},
}
GATES = ("ops.reused_solver", "ops.shared_params", "ops.after_abort", "ops.default_params", "ops.repeat_identical", "nontrivial")


def generate(rng, seed, index, tier):
    npb = int(rng.integers(1, 4))
    problems, starts = [], []
    for _ in range(npb):
        fam = str(rng.choice(["qp", "nlp", "degenerate", "domain", "infeasible", "expo"], p=[0.3, 0.3, 0.1, 0.1, 0.05, 0.15]))
        spec, x0, y0 = gen.gen_problem(rng, fam, nmax=5)
        spec["policy"] = str(rng.choice(["fresh", "memo"], p=[0.7, 0.3]))
        problems.append(spec)
        starts.append((x0, y0))
    nprm = int(rng.integers(1, 4))
    plist = []
    for i in range(nprm):
        if rng.random() < 0.2:
            plist.append("default")
            continue
        kw = gen.gen_params(rng, problems[0], starts[0][0], starts[0][1], p_knob=0.5, scaling=False, reporting=True, numeric=0.2)
        u_ = rng.random()
        if u_ < 0.15:
            # computed scalings: the scaling point is the start of the solve that creates the solver, so two
            # solvers on one problem object get different scalings
            kw["scaling_type"] = str(rng.choice(["GradJac", "Nominal", "KKT"]))
            kw["scaling_primal"] = "x0"
            kw["scaling_dual"] = "y0"
        elif u_ < 0.6:
            kw["scaling_type"] = "Custom"  # weights are per problem: filled in per solver below
        kw["iteration_limit"] = int(rng.choice([3, 8, 25, 60]))
        if rng.random() < 0.35:
            kw["time_limit"] = float(rng.choice([1.0, 50.0, 400.0]))
        if rng.random() < 0.15:
            kw["lamb_max"] = float(rng.choice([8.0, 64.0, 1e3]))
        if rng.random() < 0.5:
            kw["display_interval"] = float(rng.choice([0.0, 0.1, 1e18]))
        if rng.random() < 0.25:
            kw["lamb_init"] = float(rng.choice([0.3, 3.3, 0.7]))  # not dyadic
        if rng.random() < 0.1:
            # single precision is mostly unusable here (DESIGN 3.3) - as an *earlier solve of the process* it is
            # still a legitimate part of a history, whatever its own outcome
            kw["precision"] = "Single"
            kw.pop("scaling_type", None)
        plist.append(kw)
    hist = []
    nsolv = int(rng.integers(1, 5))
    solvers = []
    conv = None
    for sid in range(nsolv):
        pid = int(rng.integers(0, npb))
        prm = int(rng.integers(0, nprm))
        if plist[prm] == "default":
            # the default Params carry no iteration limit: give those solvers a problem of the
            # class that is known to converge (C03's generator)
            if conv is None:
                spec, x0, y0 = gen.gen_convex_qp(rng)
                problems.append(spec)
                starts.append((x0, y0))
                conv = len(problems) - 1
            pid = conv
        scaling = None
        if plist[prm] != "default" and plist[prm].get("scaling_type") == "Custom":
            # Custom scaling weights depend on the problem's size, so such a Params object is
            # only shared among solvers of one problem
            other = [s for s in solvers if s["prm"] == prm]
            if other:
                pid = other[0]["pid"]
                scaling = other[0]["scaling"]
            else:
                scaling = {"var": rng.integers(-3, 4, size=problems[pid]["n"]).tolist(), "cons": rng.integers(-3, 4, size=problems[pid]["m"]).tolist(), "obj": int(rng.integers(-2, 3))}
        spoint = None
        if plist[prm] != "default" and plist[prm].get("scaling_type") in ("GradJac", "Nominal", "KKT"):
            # the scaling point belongs to the solver (it is used when the solver is built), not to a solve
            import numpy as np

            sp_ = problems[pid]
            spoint = [np.clip(np.round(rng.normal(size=sp_["n"]) * 2, 3), sp_["xl"], sp_["xu"]).tolist(), np.round(rng.normal(size=sp_["m"]), 3).tolist()]
        solvers.append({"sid": sid, "pid": pid, "prm": prm, "scaling": scaling, "spoint": spoint})
    if rng.random() < 0.25:
        # the other solver class of the package takes part in the history as well (own parameters)
        ok = [i for i, p in enumerate(problems) if p["family"] in ("qp", "nlp", "convex-qp")]
        if ok:
            for _ in range(int(rng.integers(1, 3))):
                plist.append({"iteration_limit": int(rng.choice([3, 10])), "display_interval": 1e18, "collect_path": bool(rng.random() < 0.5)})
                solvers.append({"sid": nsolv, "pid": ok[int(rng.integers(0, len(ok)))], "prm": len(plist) - 1, "scaling": None, "kind": "integration"})
                nsolv += 1
    made = set()
    solved = set()
    nops = int(rng.integers(2, 8))
    last = None
    for _ in range(nops):
        s = solvers[int(rng.integers(0, nsolv))]
        if s["sid"] not in made and not (rng.random() < 0.0):
            hist.append({"op": "new_solver", **s})
            made.add(s["sid"])
        if last is not None and rng.random() < 0.25 and last["sid"] in made:
            op = copy.deepcopy(last)  # identical repeat
            if rng.random() < 0.4 and len(op["y0"]):
                import numpy as np

                op["y0"] = (np.asarray(op["y0"], float) + 1.0).tolist()  # the same start, other multipliers
        else:
            x0, y0 = starts[s["pid"]]
            if rng.random() < 0.5 and problems[s["pid"]]["family"] != "convex-qp":
                import numpy as np

                sp_ = problems[s["pid"]]
                x0 = np.clip(np.round(rng.normal(size=sp_["n"]) * 2, 3), sp_["xl"], sp_["xu"])
                y0 = np.round(rng.normal(size=sp_["m"]), 3) * int(rng.integers(0, 2))
            op = {"op": "solve", "sid": s["sid"], "x0": x0, "y0": y0, "obs": gen.gen_obs(rng), "clock": gen.gen_clock(rng, n=300), "faults": []}
            if rng.random() < 0.12 and s.get("kind") != "integration":
                # somebody else solved the very same problem with the same settings in single precision just before
                op["pre_single"] = True
            if s["sid"] in solved and s.get("kind") != "integration" and rng.random() < 0.2:
                # warm start derived from what the previous solve on this solver returned: the same point, or its
                # components in another order (a point with the same norm and the same sum as the last one evaluated)
                op["warm"] = str(rng.choice(["reversed", "rolled", "same"], p=[0.5, 0.3, 0.2]))
            r = rng.random()
            if r < 0.15:
                op["clock"] = {"expire_at_read": int(rng.integers(2, 40))}
            elif r < 0.25:
                op["faults"] = [{"dev": "eval", "comp": str(rng.choice(["obj", "grad"])), "at_x0": True, "kind": "nan"}]
            elif r < 0.4:
                op["faults"] = [{"dev": "eval", "comp": str(rng.choice(["obj", "grad", "hess"])), "at": int(rng.integers(2, 30)), "kind": "nan"}]
        hist.append(op)
        solved.add(op["sid"])
        last = op
    w = gen.base_world(seed, ID, index, None, [], [], {}, case={"problems": problems, "params_list": plist, "history": hist, "reuse_buffers": bool(rng.random() < 0.3)})
    return w


def _op_world(world, op, solver_def, shift=0.0):
    """Stand-alone world for one solve op.  `shift` moves the op's clock plan in absolute virtual
    time (virtual time goes on between the solves of a process; the isolated twin runs the same
    relative plan right after its process started).  Within one binade of doubles all clock
    values live on one grid, so the shift changes no difference of two reads."""
    c = world["case"]
    prm = c["params_list"][solver_def["prm"]]
    params = "default" if prm == "default" else dict(prm)
    if params != "default" and solver_def.get("scaling") is not None:
        params["scaling"] = solver_def["scaling"]
    if params != "default" and solver_def.get("spoint") is not None:
        params["scaling_primal"], params["scaling_dual"] = solver_def["spoint"]
    elif params != "default" and params.get("scaling_type") in ("GradJac", "Nominal", "KKT"):
        params.pop("scaling_type", None)
        params.pop("scaling_primal", None)
        params.pop("scaling_dual", None)
    return {
        "problem": c["problems"][solver_def["pid"]],
        "x0": op["x0"],
        "y0": op["y0"],
        "params": params if params != "default" else {},
        "params_default": params == "default",
        "clock": dict(op.get("clock") or {}, t0=gen.T0 + shift),
        "obs": op.get("obs", {}),
        "faults": op.get("faults", []),
        "solver": solver_def.get("kind", "homotopy"),
    }


def _isolated(w):
    ex = execute(w, params=("default" if w.get("params_default") else None))
    x = None
    if ex.result is not None and getattr(ex.result, "x", None) is not None:
        x = [float(v) for v in ex.result.x]
    return {"traj": ex.traj_digest(), "res": ex.result_digest(), "outcome": ex.outcome, "trials": len(ex.trials), "x": x}


def case(world):
    c = world["case"]
    hist = c["history"]
    only = c.get("only")
    stats = {}

    def bump(k, n=1):
        stats[k] = stats.get(k, 0) + n

    # validity after shrinking: every solve needs its solver defined earlier
    defs = {}
    plan = []
    for op in hist:
        if op["op"] == "new_solver":
            if op["pid"] >= len(c["problems"]) or op["prm"] >= len(c["params_list"]):
                return {"violations": [], "stats": {"invalid_world": 1}, "keys": [], "executions": 0, "sample": None}
            defs[op["sid"]] = op
        elif op["op"] == "solve":
            if op["sid"] not in defs:
                return {"violations": [], "stats": {"invalid_world": 1}, "keys": [], "executions": 0, "sample": None}
            plan.append((op, defs[op["sid"]]))
    # 1. isolated twins, forked while this process is still pristine
    twins = []
    derived = {}
    last_twin = {}
    for (op, d) in plan:
        if op.get("warm") and last_twin.get(op["sid"]) is not None and last_twin[op["sid"]].get("x") is not None:
            # the start is a function of the previous *isolated* result (equal to the one of the history on a tree
            # where the property holds), so both sides of the comparison get the same start
            import numpy as np

            xp = np.array(last_twin[op["sid"]]["x"], float)
            sp_ = c["problems"][d["pid"]]
            if len(xp) == sp_["n"] and np.all(np.isfinite(xp)):
                xp = {"reversed": xp[::-1], "rolled": np.roll(xp, 1), "same": xp}[op["warm"]]
                derived[id(op)] = np.clip(xp, np.array(sp_["xl"], float), np.array(sp_["xu"], float))
                op = dict(op, x0=derived[id(op)])
        kind, payload = engine.run_one_forked(_isolated, _op_world(world, op, d), limit=60.0)
        if kind != "ok":
            raise RuntimeError("isolated twin failed: %s %s" % (kind, str(payload)[-400:]))
        twins.append(payload)
        last_twin[op["sid"]] = payload
    # 2. the history, in this process
    problems = {}
    params = {}
    solvers = {}
    viol, keys = [], []
    execs = len(twins)
    prev_dig = "start"
    start_bufs = {}
    kept = []
    prev_by_solver = {}
    i = -1
    seen_params_users = {}
    for op in hist:
        if op["op"] == "new_solver":
            continue
        i += 1
        d = defs[op["sid"]]
        if id(op) in derived:
            op = dict(op, x0=derived[id(op)])
            bump("ops.warm_start_from_previous_result")
        w = _op_world(world, op, d, shift=1000.0 * (i + 1))
        if d["pid"] not in problems:
            problems[d["pid"]] = SimProblem(c["problems"][d["pid"]])
        prob = problems[d["pid"]]
        sid = op["sid"]
        if op.get("pre_single") and not w["params_default"]:
            # an unrelated earlier solve of the process: same data and settings, single precision, own objects,
            # whatever its outcome (single precision is mostly unusable here, DESIGN 3.3)
            ws = copy.deepcopy(w)
            ws["params"]["precision"] = "Single"
            ws["params"].pop("scaling_type", None)
            ws["params"].pop("scaling", None)
            ws["params"]["iteration_limit"] = min(int(ws["params"].get("iteration_limit") or 5), 5)
            ws["faults"] = []
            try:
                execute(ws)
            except BaseException as e:  # noqa  (a harness-side dtype problem must not decide anything)
                if type(e).__name__ == "HarnessError":
                    raise
            bump("ops.after_single_precision_solve")
            execs += 1
        if sid not in solvers:
            if w["params_default"]:
                ex = execute(w, problem=prob, params="default")
                bump("ops.default_params")
            else:
                key = (d["prm"], repr(d.get("scaling")), repr(d.get("spoint")))
                if key not in params:
                    params[key] = build_params(w)
                else:
                    bump("ops.shared_params")
                ex = execute(w, problem=prob, params=params[key])
            solvers[sid] = ex.solver
        else:
            bump("ops.reused_solver")
            if w["params_default"]:
                bump("ops.default_params")
            bufs = None
            if c.get("reuse_buffers") and d.get("kind") != "integration":
                # the caller keeps one pair of start arrays per solver and overwrites them in place
                import numpy as np

                if sid not in start_bufs:
                    start_bufs[sid] = (np.zeros(len(op["x0"])), np.zeros(len(op["y0"])))
                bufs = start_bufs[sid]
                bump("ops.reused_start_buffers")
            ex = execute(w, problem=prob, solver=solvers[sid], start_buffers=bufs)
        execs += 1
        tw = twins[i]
        dig = ex.traj_digest()
        bump("op." + ex.outcome.split("@")[0])
        if d.get("kind") == "integration":
            bump("ops.integration_solver")
        if i > 0 and prev_outcome_abort:
            bump("ops.after_abort")
        if sid in prev_by_solver and prev_by_solver[sid] == (repr(op["x0"]), repr(op["y0"]), repr(op.get("clock")), repr(op.get("faults")), repr(op.get("obs"))):
            bump("ops.repeat_identical")
        prev_by_solver[sid] = (repr(op["x0"]), repr(op["y0"]), repr(op.get("clock")), repr(op.get("faults")), repr(op.get("obs")))
        sub = {"op": i}
        if only is None or only == sub:
            if dig == tw["traj"] and ex.result_digest() != tw["res"]:
                viol.append(V(ID, "history-dependence", "solve #%d: trajectory as in a fresh process, but the returned result (status / counters / x, y, d / collected path) differs" % i, sub, {"reused": sid in prev_by_solver, "prev": prev_dig[:8], "part": "result"}, sig_extra="result"))
            if dig != tw["traj"]:
                t = "?"
                viol.append(V(ID, "history-dependence", "solve #%d (solver %d%s) ended %s after %d trials; alone in a fresh process it ends %s after %d trials" % (i, sid, ", re-used" if stats.get("ops.reused_solver") else "", ex.outcome, len(ex.trials), tw["outcome"], tw["trials"]), sub, {"reused": sid in prev_by_solver, "prev": prev_dig[:8]}))
        if i > 0 and tw["trials"] >= 1:
            bump("nontrivial")
            keys.append("%s:%d:%s" % (tw["traj"][:12], i, prev_dig[:8]))
        kept.append((i, ex, ex.result_digest()))
        prev_dig = dig
        prev_outcome_abort = ex.outcome in ("status:TimeLimit", "status:IterationLimit", "deliberate:Inverse step size", "deliberate:Failed to evaluate initial iterate") or ex.outcome.startswith("crash")
    # results are values: what an earlier solve returned must not change because of later solves
    for (j, exj, dj) in kept:
        if (only is None or only == {"op": j}) and exj.result_digest() != dj:
            viol.append(V(ID, "earlier-result-changed", "the result returned by solve #%d changed after later solves in the process" % j, {"op": j}, {}))
    sample = {"seed": world.get("seed"), "index": world.get("index"), "problems": [{"family": p["family"], "n": p["n"], "m": p["m"]} for p in c["problems"]], "params_list": c["params_list"], "history": [{k: v for k, v in op.items() if k != "clock"} for op in hist][:8]}
    return {"violations": viol, "stats": stats, "keys": keys, "executions": execs, "sample": sample}
