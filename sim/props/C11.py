"""C11 -- caller-owned data is never modified; cached callback results are safe.
The aliasing device hands out objects under a chosen policy (fresh / cached
constant / memoised per point) and format (COO/CSR/CSC), keeps a private value
snapshot of everything it handed out and re-checks all of them at every later
call and at the end of the solve; twin runs under the three policies must
produce byte-identical trajectories."""
import copy

import numpy as np

from .. import gen
from ..runner import execute
from .common import V, knob_key, seam_violations, small_sample

ID = "C11"
LEVEL = "exploration"
RULE = (
    "world = generated problem (QP families with constant Jacobian/Hessian, nonlinear families, equality rows with non-zero "
    "right-hand side, inequality/ranged rows) x configuration incl. every scaling type; executed for each sparse format "
    "(COO/CSR/CSC) under the return policies fresh / cached / memo with value snapshots of every handed-out object, of x0, y0, "
    "the bound arrays, the scaling weights and scaling points; a world is non-trivial when a cached or memoised object was "
    "actually handed out more than once; distinct = distinct (trajectory digest of the fresh run, format)"
)
ASSUMPTIONS = [
    "sparse matrices are compared by value (shape, dtype, canonical triplets), not by raw index layout: scipy may sort indices of a matrix in place without changing its value",
    "writeable-flag changes on handed-out arrays are recorded, not failed: the property speaks of values",
    "trajectories are only compared between runs using the same sparse format (summation order may legitimately depend on the format)",
]
TIERS = {
    "quick": {"worlds": 420, "wall": 170, "cap": 16, "limit": 90.0},
    "thorough": {"worlds": 5000, "wall": 1700, "cap": 80, "limit": 240.0},
}
GATES = ("reuse.cached", "reuse.memo", "worlds.scaled", "worlds.offset_rows", "worlds.slack_rows", "worlds.int_bounds", "worlds.dup_coo", "worlds.zero_in_start")


def generate(rng, seed, index, tier):
    fam = str(rng.choice(["qp", "nlp", "degenerate", "domain", "saddle"], p=[0.4, 0.3, 0.09, 0.05, 0.16]))
    spec, x0, y0 = gen.gen_problem(rng, fam)
    kw = gen.gen_params(rng, spec, x0, y0, p_knob=0.45, reporting=False, scaling=False, numeric=0.15)
    # aliasing bugs live in one formulation each: sweep step solvers and Newton types uniformly
    kw["step_solver_type"] = str(rng.choice(["Standard", "Extended", "Symmetric", "Asymmetric"]))
    if kw.get("linear_solver_type") == "MINRES" and kw["step_solver_type"] != "Symmetric":
        kw["linear_solver_type"] = "LU"
    kw["newton_type"] = str(rng.choice(["Simplified", "Full", "ActiveSet", "Globalized"], p=[0.25, 0.25, 0.25, 0.25]))
    if kw["newton_type"] == "Globalized" and rng.random() < 0.5:
        kw["step_control_type"] = "ResiduumRatio"  # the multi-step controllers mostly give up in the line search
    if spec["m"] and rng.random() < 0.3:
        # equality rows only: no slack columns, so the core works on the user's own Jacobian object
        spec["cl"] = np.array(spec["cl"], float)
        spec["cu"] = np.array(spec["cu"], float)
        for i in range(spec["m"]):
            v = spec["cl"][i] if np.isfinite(spec["cl"][i]) else spec["cu"][i]
            if not np.isfinite(v):
                v = 0.0  # a free row (no finite bound at all)
            spec["cl"][i] = spec["cu"][i] = float(np.round(v, 3))
        if rng.random() < 0.5:
            # ... with right-hand side zero (no offset either: the core works on the very array cons() returned)
            spec["b"] = np.array(spec["b"], float) + spec["cl"]
            spec["cl"] = np.zeros(spec["m"])
            spec["cu"] = np.zeros(spec["m"])
    if rng.random() < 0.3:
        spec["m"], spec["A"], spec["B"], spec["b"], spec["cl"], spec["cu"] = 0, np.zeros((0, spec["n"])), np.zeros((0, spec["n"])), np.zeros(0), np.zeros(0), np.zeros(0)
        y0 = np.zeros(0)
    if rng.random() < 0.5:
        st = str(rng.choice(["GradJac", "KKT", "Nominal", "Custom"], p=[0.15, 0.15, 0.15, 0.55]))
        kw["scaling_type"] = st
        if st == "Custom":
            kw["scaling"] = {"var": rng.integers(-4, 5, size=spec["n"]).tolist(), "cons": rng.integers(-4, 5, size=spec["m"]).tolist(), "obj": int(rng.integers(-3, 4))}
            if rng.random() < 0.2:
                kw["scaling"]["cons"] = [0] * spec["m"]  # variables-only scaling: the rows pass through unscaled
                kw["scaling"]["obj"] = 0
        else:
            kw["scaling_primal"] = "x0"
            kw["scaling_dual"] = "y0"
    kw["iteration_limit"] = int(rng.integers(4, TIERS[tier]["cap"] + 1))
    kw = gen.quiet_params(kw)
    if spec["m"] and rng.random() < 0.12:
        # the formulation in which nothing between the callbacks and the core copies anything: equality rows with
        # right-hand side zero, no scaling - the core (and the derivative check) work on the caller's own arrays
        v = np.where(np.isfinite(np.array(spec["cl"], float)), np.array(spec["cl"], float), np.array(spec["cu"], float))
        v = np.where(np.isfinite(v), v, 0.0)  # free rows
        spec["b"] = np.array(spec["b"], float) + np.round(v, 3)
        spec["cl"] = np.zeros(spec["m"])
        spec["cu"] = np.zeros(spec["m"])
        for k_ in ("scaling_type", "scaling", "scaling_primal", "scaling_dual"):
            kw.pop(k_, None)
        if fam in ("qp", "nlp") and rng.random() < 0.5:
            kw["deriv_check"] = str(rng.choice(["CheckFirst", "CheckAll"]))
    if fam in ("qp", "nlp") and rng.random() < 0.15:
        # the opt-in derivative check evaluates the callbacks at perturbed points: what it gets back is caller-owned too
        kw["deriv_check"] = str(rng.choice(["CheckFirst", "CheckAll", "CheckSecond"]))
    if fam in ("qp", "nlp") and rng.random() < 0.15:
        x0 = gen.integer_bounds(rng, spec, x0)
    if rng.random() < 0.25:
        spec["dup"] = True
    if rng.random() < 0.25:
        # exact zeros in the start (which is also the nominal / scaling point of the automatic scalings)
        x0 = np.array(x0, float)
        for j in range(spec["n"]):
            if spec["xl"][j] <= 0.0 <= spec["xu"][j] and rng.random() < 0.6:
                x0[j] = 0.0
    return gen.base_world(seed, ID, index, spec, x0, y0, kw, case={"keep_policy": True})


def _run(world, fmt, policy):
    w = copy.deepcopy(world)
    w["problem"]["fmt"] = fmt
    w["problem"]["policy"] = policy
    return execute(w, alias=True)


def case(world):
    only = (world.get("case") or {}).get("only")
    stats = {}

    def bump(k, n=1):
        stats[k] = stats.get(k, 0) + n

    viol, keys = [], []
    execs = 0
    p = world["problem"]
    sc = world["params"].get("scaling_type", "NoScaling")
    if sc != "NoScaling":
        bump("worlds.scaled")
    if any(l == u and l != 0 for l, u in zip(p["cl"], p["cu"])):
        bump("worlds.offset_rows")
    if any(l != u for l, u in zip(p["cl"], p["cu"])):
        bump("worlds.slack_rows")
    if p.get("int_bounds"):
        bump("worlds.int_bounds")
    if p.get("dup"):
        bump("worlds.dup_coo")
    if any(v == 0.0 for v in world["x0"]):
        bump("worlds.zero_in_start")
    ctx0 = {"knobs": knob_key(world), "scaling": sc}
    for fmt in ("coo", "csr", "csc"):
        ref = None
        for policy in ("fresh", "cached", "memo", "retain"):
            if policy == "retain" and world["params"].get("deriv_check"):
                continue  # the derivative check perturbs one work array in place and passes it on: arguments are not stable there
            sub = {"fmt": fmt, "policy": policy}
            if only is not None and only != sub and policy != "fresh":
                continue
            if only is not None and only["fmt"] != fmt:
                continue
            ex = _run(world, fmt, policy)
            execs += 1
            seam_violations(ex, ID)
            ctx = dict(ctx0, fmt=fmt, policy=policy)
            dev = ex.problem
            # oracle A: nothing the caller owns changed its value
            muts = sorted(set((c, w_.split(":")[0]) for (c, k, w_) in dev.mutations))
            for (comp, when) in muts[:2]:
                viol.append(V(ID, "callback-result-modified", "a %s object returned by the callback (%s, %s) changed its value while the solver ran" % (comp, fmt, policy), sub, ctx, sig_extra=comp))
            gm = dev.given_modified()
            if gm:
                viol.append(V(ID, "bounds-modified", "bound arrays %s were modified" % gm, sub, ctx))
            if not (np.array_equal(ex.x0_arg, ex.x0) and np.array_equal(ex.y0_arg, ex.y0)):
                viol.append(V(ID, "start-modified", "x0 or y0 passed to solve() were modified", sub, ctx))
            prm = ex.params
            if prm.scaling is not None:
                s0 = world["params"]["scaling"]
                if list(map(int, prm.scaling.var_weights)) != s0["var"] or list(map(int, prm.scaling.cons_weights)) != s0["cons"]:
                    viol.append(V(ID, "weights-modified", "scaling weights were modified", sub, ctx))
            if prm.scaling_primal is not None and (prm.scaling_primal.tobytes() != ex.x0.tobytes()):
                viol.append(V(ID, "weights-modified", "scaling_primal was modified", sub, ctx))
            if ex.params_changed:
                viol.append(V(ID, "params-modified", "the caller's Params object was modified by the solve: %s" % ex.params_changed, sub, ctx))
            if dev.arg_mutations:
                bump("argument_arrays_overwritten_after_the_call", len(dev.arg_mutations))
            # reuse statistics
            if policy == "cached" and dev.const:
                if any(e[4] > 1 for e in dev.handed if any(e[1] is o for o in dev.const.values())):
                    bump("reuse.cached")
            if policy == "memo":
                if any(e[4] > 1 for e in dev.handed):
                    bump("reuse.memo")
            if policy == "retain":
                if any(e[4] > 1 for e in dev.handed):
                    bump("reuse.retain")
            # oracle B: twins
            if policy == "fresh":
                ref = ex
                bump("ref." + ex.outcome.split("@")[0])
                continue
            if ex.traj_digest() != ref.traj_digest():
                t = 0
                while t < min(len(ref.trials), len(ex.trials)) and ref.trials[t].exc is None and ex.trials[t].exc is None and ref.trials[t].key() == ex.trials[t].key():
                    t += 1
                viol.append(V(ID, "twin-differs", "%s/%s run ends %s, the fresh-copy run ends %s; first difference at trial %d" % (fmt, policy, ex.outcome, ref.outcome, t), sub, dict(ctx, t=t), sig_extra=policy))
        if ref is not None and len(ref.trials) >= 1:
            keys.append(ref.traj_digest()[:12] + ":" + fmt)
    sample = small_sample(world)
    return {"violations": viol, "stats": stats, "keys": keys, "executions": execs, "sample": sample}
