"""C19 -- the derivative checker accepts correct derivatives and pinpoints wrong ones.
Fault injection at the callback device: one persistently corrupted derivative entry."""
import copy

import numpy as np

from .. import gen
from ..model import RefTransform, UserModel
from ..runner import execute
from .common import V, seam_violations, small_sample

ID = "C19"
LEVEL = "exploration"
RULE = (
    "world = well-scaled smooth problem (|f|, |second derivatives| <= ~1e2, all row kinds, starts inside or on the bounds), no scaling "
    "or small Custom scaling, deriv_check in {CheckFirst, CheckSecond, CheckAll}; variants: uncorrupted (must pass and leave the "
    "trajectory byte-identical to the run without the check), sub-tolerance corruption (must pass), and one corrupted entry of the "
    "gradient, the Jacobian or the Hessian at a seeded (row, column) with magnitude {1.5, 3, 10, 1e3} x (deriv_tol + 1e-5|entry|) + 1e-5 "
    "or with the (non-zero) entry left out of the sparse result altogether (must raise DerivError naming exactly that row and column, from the right check); a variant is non-trivial when a corruption was "
    "injected; distinct = distinct (world, component, row, column, magnitude)"
)
ASSUMPTIONS = [
    "forward-difference error of the generated families stays below 5e-5 (|f| and second derivatives <= ~1e2 with deriv_pert = 1e-8), well below deriv_tol = 1e-4",
    "Hessian corruption is applied to a single (row, col) entry (not mirrored), so exactly one column of the check is affected",
]
TIERS = {"quick": {"worlds": 1500, "wall": 150, "limit": 60.0}, "thorough": {"worlds": 15000, "wall": 1700, "limit": 120.0}}
GATES = ("nontrivial", "second_solve.corrupted", "corrupt.hess_wrong_multiplier", "corrupt.dropped_entry", "corrupt.grad", "corrupt.jac", "corrupt.hess", "detected", "passed.uncorrupted", "passed.subtolerance", "passed.other_check")


def generate(rng, seed, index, tier):
    fam = str(rng.choice(["qp", "nlp"], p=[0.4, 0.6]))
    spec, x0, y0 = gen.gen_problem(rng, fam, nmax=5, mmax=3)
    x0 = np.clip(np.round(rng.normal(size=spec["n"]), 3), spec["xl"], spec["xu"])
    y0 = np.round(rng.normal(size=spec["m"]), 3)
    if rng.random() < 0.2:
        # a warm start: some variables sit within a few 1e-9 of a bound (closer than the perturbation), not on it
        for j in range(spec["n"]):
            u = rng.random()
            if u < 0.35 and np.isfinite(spec["xu"][j]) and spec["xu"][j] > spec["xl"][j]:
                x0[j] = spec["xu"][j] - float(rng.choice([1e-9, 3e-9, 6e-9]))
            elif u < 0.7 and np.isfinite(spec["xl"][j]) and spec["xu"][j] > spec["xl"][j]:
                x0[j] = spec["xl"][j] + float(rng.choice([1e-9, 3e-9, 6e-9]))
    # the sparse results come in every legal COO shape: repeated positions (an entry is the sum of its
    # contributions), stored zeros, changing entry order
    if rng.random() < 0.3:
        spec["dup"] = True
        spec["fmt"] = "coo"
    if rng.random() < 0.2:
        spec["xzeros"] = True
    if rng.random() < 0.2:
        spec["shuffle"] = True
    kw = {"deriv_check": str(rng.choice(["CheckFirst", "CheckSecond", "CheckAll"], p=[0.3, 0.3, 0.4])), "iteration_limit": int(rng.integers(2, 8))}
    if rng.random() < 0.3:
        kw["scaling_type"] = "Custom"
        kw["scaling"] = {"var": rng.integers(-2, 3, size=spec["n"]).tolist(), "cons": rng.integers(-2, 3, size=spec["m"]).tolist(), "obj": int(rng.integers(-1, 2))}
    kw = gen.quiet_params(kw)
    if rng.random() < 0.2:
        kw["precision"] = "Double"  # the default, spelled out by name (as a configuration file would)
    clock = None
    if rng.random() < 0.15:
        # a deadline, and callback evaluations that take (virtual) time: the check's own evaluations must not
        # eat into the time budget of the solve
        kw["time_limit"] = float(rng.choice([0.2, 0.6, 2.0]))
        kw["iteration_limit"] = int(rng.integers(8, 40))
        clock = {"t0": gen.T0, "steps": [], "tail": 0.0, "per_eval": 0.01}
    plans = []
    for _ in range(6):
        comp = str(rng.choice(["grad", "jac", "hess"]))
        if comp == "jac" and spec["m"] == 0:
            comp = "grad"
        row = 0 if comp == "grad" else int(rng.integers(0, spec["m"] if comp == "jac" else spec["n"]))
        col = int(rng.integers(0, spec["n"]))
        plans.append({"comp": comp, "row": row, "col": col, "mult": float(rng.choice([1.5, 3.0, 10.0, 1e3])), "sign": int(rng.choice([-1, 1])), "sub": bool(rng.random() < 0.2), "drop": bool(rng.random() < 0.25)})
    return gen.base_world(seed, ID, index, spec, x0, y0, kw, clock=clock, case={"plans": plans})


def _internal_entry_and_shift(rt, comp, row, col, xi, yi):
    """true internal value of the entry and the exponent shift user -> internal"""
    if comp == "grad":
        return rt.g(xi)[col], rt.wo - rt.wv[col]
    if comp == "jac":
        return rt.J(xi)[row, col], rt.wc[row] - rt.wv[col]
    return rt.H(xi, yi)[row, col], rt.wo - rt.wv[row] - rt.wv[col]


def case(world):
    only = (world.get("case") or {}).get("only")
    stats = {}

    def bump(k, n=1):
        stats[k] = stats.get(k, 0) + n

    viol, keys = [], []
    mode = world["params"]["deriv_check"]
    first = mode in ("CheckFirst", "CheckAll")
    second = mode in ("CheckSecond", "CheckAll")
    off = copy.deepcopy(world)
    off["params"].pop("deriv_check")
    R0 = execute(off)
    seam_violations(R0, ID)
    R1 = execute(world)
    execs = 2
    sub = {"variant": "uncorrupted"}
    if only is None or only == sub:
        if R1.outcome == "DerivError":
            e = R1.exc
            viol.append(V(ID, "false-positive", "correct derivatives rejected (%s): column %s rows %s, max diff %r" % (mode, e.col_index, list(e.invalid_indices), float(e.max_deriv_diff)), sub, {"mode": mode}))
        elif R1.traj_digest() != R0.traj_digest():
            viol.append(V(ID, "check-alters-solve", "with the derivative check on the solve ends %s, without it %s (or the trajectories differ)" % (R1.outcome, R0.outcome), sub, {"mode": mode}))
        else:
            bump("passed.uncorrupted")
    if R0.solver is None or getattr(R0.solver, "transform", None) is None or R1.outcome.startswith("crash"):
        return {"violations": viol, "stats": stats, "keys": keys, "executions": execs, "sample": None}
    rt = R0.ref_transform()
    xi, yi = rt.to_internal(R0.x0, R0.y0)
    tol = R0.params.deriv_tol
    for pi, pl in enumerate(world["case"]["plans"]):
        sub = {"plan": pi}
        if only is not None and only != sub:
            continue
        comp, row, col = pl["comp"], pl["row"], pl["col"]
        if col >= rt.um.n or (comp == "jac" and row >= rt.um.m) or (comp == "hess" and row >= rt.um.n):
            continue
        e_s, shift = _internal_entry_and_shift(rt, comp, row, col, xi, yi)
        drop = bool(pl.get("drop")) and not pl["sub"]
        checked = (first and comp in ("grad", "jac")) or (second and comp == "hess")
        if drop and not checked:
            # leaving out a non-constant first-derivative entry also changes the function the
            # Hessian check differentiates, so "not covered by this check" has no fixed expectation
            continue
        if drop:
            # the (true, non-zero) entry is left out of the derivative altogether; only meaningful when it
            # is well above the checker's tolerance
            if not abs(e_s) >= 10.0 * (tol + 1e-5 * abs(e_s)) + 1e-4:
                continue
            d_s = -float(e_s)
            bump("corrupt.dropped_entry")
        elif pl["sub"]:
            d_s = pl["sign"] * 0.1 * tol
        else:
            d_s = pl["sign"] * (pl["mult"] * (tol + 1e-5 * (abs(e_s) + abs(pl["mult"] * tol))) + 1e-5)
        delta = float(np.ldexp(d_s, -int(shift)))
        w = copy.deepcopy(world)
        w["faults"] = [{"dev": "eval", "comp": comp, "corrupt": {"row": row, "col": col, "delta": delta, "drop": drop}}]
        F = execute(w)
        execs += 1
        ctx = {"mode": mode, "comp": comp, "row": row, "col": col, "mult": pl["mult"], "sub_tolerance": pl["sub"]}
        if pl["sub"] or not checked:
            if F.outcome == "DerivError":
                viol.append(V(ID, "false-positive", "%s entry (%d,%d) off by %r (%s) was rejected" % (comp, row, col, d_s, "below tolerance" if pl["sub"] else "not covered by " + mode), sub, ctx))
            else:
                bump("passed.subtolerance" if pl["sub"] else "passed.other_check")
            continue
        bump("nontrivial")
        bump("corrupt." + comp)
        keys.append("%s:%s:%d:%d:%g:%s" % (R0.traj_digest()[:10], comp, row, col, pl["mult"] * pl["sign"], mode))
        if F.outcome != "DerivError":
            viol.append(V(ID, "missed", "%s entry (%d,%d) wrong by %r (internal units, %.1f x tolerance) but the solve went on: %s" % (comp, row, col, d_s, pl["mult"], F.outcome), sub, ctx, sig_extra=comp))
            continue
        e = F.exc
        exp_rows = [0] if comp == "grad" else [row]
        if int(e.col_index) != col or [int(i) for i in e.invalid_indices] != exp_rows:
            viol.append(V(ID, "wrong-location", "%s entry (%d,%d) is wrong but the error names column %s rows %s" % (comp, row, col, e.col_index, list(e.invalid_indices)), sub, ctx, sig_extra=comp))
            continue
        # the raising check is the right one: its derivative has the component's shape
        shp = e.expected_value.shape[0]
        exp_shape = {"grad": 1, "jac": rt.um.m, "hess": rt.N}[comp]
        if shp != exp_shape:
            viol.append(V(ID, "wrong-check", "%s entry corrupted but the error comes from a check with %d rows" % (comp, shp), sub, ctx, sig_extra=comp))
            continue
        bump("detected")
    # ---- the check runs on *every* solve: the same solver object, derivatives now wrong
    sub = {"variant": "second-solve"}
    plans_ok = [pl for pl in world["case"]["plans"] if not pl["sub"] and not pl.get("drop") and pl["col"] < rt.um.n and ((first and pl["comp"] in ("grad", "jac") and (pl["comp"] != "jac" or pl["row"] < rt.um.m)) or (second and pl["comp"] == "hess" and pl["row"] < rt.um.n))]
    if plans_ok and R1.outcome != "DerivError" and (only is None or only == sub):
        pl = plans_ok[0]
        e_s, shift = _internal_entry_and_shift(rt, pl["comp"], pl["row"], pl["col"], xi, yi)
        d_s = pl["sign"] * (10.0 * (tol + 1e-5 * abs(e_s)) + 1e-4)
        w = copy.deepcopy(world)
        w["faults"] = [{"dev": "eval", "comp": pl["comp"], "corrupt": {"row": pl["row"], "col": pl["col"], "delta": float(np.ldexp(d_s, -int(shift)))}}]
        F = execute(w, problem=R1.problem, solver=R1.solver)
        execs += 1
        bump("second_solve.corrupted")
        keys.append("%s:second:%s" % (R0.traj_digest()[:10], pl["comp"]))
        if F.outcome != "DerivError":
            viol.append(V(ID, "missed", "second solve() on the same solver: %s entry (%d,%d) is now wrong by 10 x tolerance but the solve went on: %s" % (pl["comp"], pl["row"], pl["col"], F.outcome), sub, {"mode": mode, "comp": pl["comp"]}, sig_extra="second-solve"))
        else:
            bump("detected")
    # ---- the constraint-curvature part of the Hessian is wrong (multiplier mis-scaled by the user)
    sub = {"variant": "wrong_y"}
    if second and rt.um.m > 0 and (only is None or only == sub):
        H_true = rt.H(xi, yi)
        fac = 0.5
        yo = np.ldexp(yi, rt.wc - rt.wo)
        H_bad = np.zeros_like(H_true)
        H_bad[: rt.um.n, : rt.um.n] = np.ldexp(rt.um.H(rt.user_x(xi), fac * yo), rt.wo - rt.wv[:, None] - rt.wv[None, :])
        diff = np.abs(H_true - H_bad)
        thr = tol + 1e-5 * np.abs(H_true)
        big = np.argwhere(diff > 3.0 * thr + 1e-5)
        if len(big):
            w = copy.deepcopy(world)
            w["faults"] = [{"dev": "eval", "comp": "hess", "corrupt": {"wrong_y": fac}}]
            F = execute(w)
            execs += 1
            bump("nontrivial")
            bump("corrupt.hess_wrong_multiplier")
            keys.append("%s:wrong_y:%s" % (R0.traj_digest()[:10], mode))
            ctx = {"mode": mode, "comp": "hess", "kind": "constraint curvature with a mis-scaled multiplier"}
            if F.outcome != "DerivError":
                viol.append(V(ID, "missed", "Hessian computed with half the multiplier (entries wrong by up to %r, %.0f x tolerance) but the solve went on: %s" % (float(diff.max()), float((diff / thr).max()), F.outcome), sub, ctx, sig_extra="hess-multiplier"))
            else:
                e = F.exc
                col = int(e.col_index)
                rows = [int(i) for i in e.invalid_indices]
                ok_cols = set(int(c) for (r_, c) in np.argwhere(diff > 0.3 * thr))
                if col not in ok_cols or not rows or any(diff[r_, col] <= 0.3 * thr[r_, col] for r_ in rows):
                    viol.append(V(ID, "wrong-location", "Hessian with a mis-scaled multiplier: the error names column %d rows %s where the Hessian is right" % (col, rows), sub, ctx, sig_extra="hess-multiplier"))
                else:
                    bump("detected")
            # the same wrong Hessian, met on a *second* solve from the same x0: the first solve starts from zero
            # multipliers (where the constraint curvature is invisible and the check passes), the second one from y0
            if F.outcome == "DerivError":
                G0 = execute(w, y0=np.zeros(rt.um.m))
                execs += 1
                if G0.outcome != "DerivError" and G0.solver is not None:
                    G1 = execute(w, problem=G0.problem, solver=G0.solver)
                    execs += 1
                    bump("second_solve.other_multipliers")
                    if G1.outcome != "DerivError":
                        viol.append(V(ID, "missed", "second solve() from the same x0 with other starting multipliers: the mis-scaled constraint curvature is visible there (a fresh solver rejects it), yet the solve went on: %s" % G1.outcome, sub, ctx, sig_extra="second-solve-multipliers"))
    return {"violations": viol, "stats": stats, "keys": keys, "executions": execs, "sample": small_sample(world, {"plans": world["case"]["plans"][:3]})}
