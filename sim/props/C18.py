"""C18 -- the penalty filter is a Pareto front.
(A) seeded operation histories on the real filter objects vs. a reference set
model, checked after every operation; (B) the live filter of filter-policy solves
monitored after every trial."""
import math

import numpy as np

from .. import gen
from ..model import RefFilter
from ..monitors import check_C18_live
from ..runner import execute
from .common import V, small_sample

ID = "C18"
INF = float("inf")
LEVEL = "exploration"
RULE = (
    "(A) operation history = 1-40 operations (filter_insert(a,b) / update(prev,next) through stub iterates) on a real "
    "ObjectivePenaltyFilter or LagrangianPenaltyFilter, values from a small grid {0,1,2,3}^2 times a per-sequence factor (ties, "
    "duplicates) mixed with random floats; after every operation entries (as a multiset), return value, pairwise non-domination, "
    "penalty and veto flag are compared with the reference Pareto set; (B) homotopy solves under the two filter policies with the live "
    "filter inspected after every trial; a history is non-trivial when it contains at least one refusal and one removal of a "
    "dominated entry; distinct = distinct operation sequences / trajectory digests"
)
ASSUMPTIONS = ["finite, non-nan pairs only (the property speaks of finite sequences of pairs)"]
TIERS = {"quick": {"worlds": 6000, "wall": 150, "limit": 60.0}, "thorough": {"worlds": 100000, "wall": 1700, "limit": 120.0}}
GATES = ("nontrivial", "ops.insert", "ops.update", "ops.refused", "ops.removed_dominated", "ops.ties", "live.updates", "live.vetoes")


def generate(rng, seed, index, tier):
    if rng.random() < 0.25:
        fam = str(rng.choice(["qp", "nlp", "infeasible", "degenerate"], p=[0.3, 0.4, 0.2, 0.1]))
        spec, x0, y0 = gen.gen_problem(rng, fam)
        kw = gen.gen_params(rng, spec, x0, y0, p_knob=0.4, reporting=False, globalized=False)
        kw["penalty_update"] = str(rng.choice(["ObjectiveFilter", "LagrangianFilter"]))
        kw["iteration_limit"] = int(rng.choice([20, 60, 150]))
        if rng.random() < 0.15 and spec["m"]:
            # many small steps: the live filter grows a long front
            kw["step_control_type"] = "Fixed"
            kw["lamb_init"] = float(rng.choice([10.0, 100.0]))
            kw["rho"] = float(rng.choice([1.0, 2.5]))
            kw["iteration_limit"] = 300
        kw = gen.quiet_params(kw)
        obs, clock = None, None
        if rng.random() < 0.15:
            obs = {"level": "CRITICAL", "callbacks": ["reenter"]}  # an observer using the solver's single-step API meanwhile
        if rng.random() < 0.15:
            kw["time_limit"] = float(rng.choice([0.5, 2.0, 6.0]))
            clock = {"t0": gen.T0, "steps": [], "tail": float(rng.choice([0.05, 0.11, 0.3]))}
        return gen.base_world(seed, ID, index, spec, x0, y0, kw, obs=obs, clock=clock, case={"mode": "live", "resolve": bool(rng.random() < 0.3)})
    n = int(rng.integers(1, 41))
    fac = float(rng.choice([1.0, 0.5, 1e-3, 7.0, 1e6]))
    ops = []
    if rng.random() < 0.08:
        # a long anti-chain first (a front with many entries), then points that only one old entry dominates
        N = int(rng.integers(66, 160))
        order = rng.permutation(N)
        for i in order:
            ops.append(["insert", float(i) * fac, float(N - i) * fac])
        for _ in range(int(rng.integers(1, 6))):
            i = int(order[int(rng.integers(0, 8))])  # one of the oldest entries
            ops.append(["insert" if rng.random() < 0.5 else "update", (float(i) + 0.25) * fac, (float(N - i) + 0.25) * fac])
        n = int(rng.integers(0, 10))
    for _ in range(n):
        if rng.random() < 0.7:
            a, b = float(rng.integers(0, 4)) * fac, float(rng.integers(0, 4)) * fac
        else:
            a, b = float(np.round(rng.normal() * fac, 4)), float(abs(np.round(rng.normal() * fac, 4)))
        ops.append(["insert" if rng.random() < 0.5 else "update", a, b])
    w = gen.base_world(seed, ID, index, None, [], [], {}, case={"mode": "ops", "kind": str(rng.choice(["objective", "lagrangian"])), "rho0": float(rng.choice([1e-8, 1e-3, 1.0, 250.0])), "history": ops})
    return w


class _StubIterate:
    """exposes exactly what PenaltyFilter.iterate_entry reads"""

    def __init__(self, a, b, kind):
        self.kind = kind
        if kind == "objective":
            self.obj = a
            self.cons_violation = b
        else:
            self._p = np.array([a])
            self.cons = np.array([b])

    def aug_lag_deriv_x(self, rho):
        return self._p

    def aug_lag_deriv_y(self):
        return self.cons


def _entry_model(a, b, kind):
    if kind == "objective":
        return (a, b)
    p, q = np.array([a]), np.array([b])
    return (np.dot(p, p) + np.dot(q, q), np.linalg.norm(q))


def _ops_case(world):
    from pygradflow.params import Params
    from pygradflow.penalty import LagrangianPenaltyFilter, ObjectivePenaltyFilter

    from ..devices import SimProblem

    c = world["case"]
    kind = c["kind"]
    # f(x) = x_0, c(x) = x_1 = 0, no bounds: the real Iterate at x = (a, b) has objective a and violation |b|
    # exactly (one multiplication by 1, one by 0), so "update" operations run on real iterates
    tiny = {"family": "qp", "n": 2, "m": 1, "Q": [[0.0, 0.0], [0.0, 0.0]], "q": [1.0, 0.0], "a": [0.0, 0.0], "A": [[0.0, 1.0]], "B": [[0.0, 0.0]], "b": [0.0], "xl": [-INF, -INF], "xu": [INF, INF], "cl": [0.0], "cu": [0.0], "dom": None}
    prob = SimProblem(tiny)
    prm = Params(rho=c["rho0"])
    from pygradflow.iterate import Iterate
    flt = (ObjectivePenaltyFilter if kind == "objective" else LagrangianPenaltyFilter)(prob, prm)
    ref = RefFilter()
    rho = c["rho0"]
    stats = {}
    viol = []

    def bump(k, n=1):
        stats[k] = stats.get(k, 0) + n

    refused = removed = False
    prev_obj = [None]
    only = c.get("only")
    for i, (op, a, b) in enumerate(c["history"]):
        sub = None
        ctx = {"t": i, "op": op, "kind": kind}
        if op == "insert":
            pair = (a, b)
            before = len(ref.entries)
            exp = ref.insert(*pair)
            got = flt.filter_insert(*pair)
            bump("ops.insert")
        else:
            it = Iterate(prob, prm, np.array([a, b], dtype=float), np.array([0.25 * a], dtype=float))
            pair = tuple(float(v) for v in flt.iterate_entry(it))
            if kind == "objective" and pair != (float(a), abs(float(b))):
                viol.append(V(ID, "pair", "op %d: the objective filter formed the pair %r from an iterate with objective %r and violation %r" % (i, pair, a, abs(b)), sub, ctx))
                break
            before = len(ref.entries)
            exp = ref.insert(*pair)
            # like the solver: the step starts from the last *accepted* iterate object, again and again until a step is accepted
            res = flt.update(prev_obj[0] if prev_obj[0] is not None else it, it)
            if res.accept:
                prev_obj[0] = it
            got = bool(res.accept)
            bump("ops.update")
            if not exp:
                rho = rho * 10.0
            if res.next_rho != rho or flt.rho != rho:
                viol.append(V(ID, "penalty", "op %d (%s): filter penalty is %r / result carries %r, expected %r (%s)" % (i, op, flt.rho, res.next_rho, rho, "tenfold after refusal" if not exp else "unchanged after acceptance"), sub, ctx))
                break
        if any(p == pair[0] or q == pair[1] for (p, q) in ref.entries[:-1] if exp) or (not exp and any(p == pair[0] or q == pair[1] for (p, q) in ref.entries)):
            bump("ops.ties")
        if not exp:
            refused = True
            bump("ops.refused")
        elif len(ref.entries) < before + 1:
            removed = True
            bump("ops.removed_dominated")
        if bool(got) != exp:
            viol.append(V(ID, "verdict", "op %d (%s %r): filter %s the pair, a stored entry at least as good in both coordinates %s" % (i, op, pair, "accepted" if got else "refused", "exists" if not exp else "does not exist"), sub, ctx))
            break
        ents = sorted((float(p), float(q)) for (p, q) in flt.entries)
        if ents != sorted((float(p), float(q)) for (p, q) in ref.entries):
            viol.append(V(ID, "entries", "after op %d the filter holds %r, the Pareto front is %r" % (i, ents[:6], sorted(ref.entries)[:6]), sub, ctx))
            break
        for x_, (p, q) in enumerate(flt.entries):
            for y_, (r, s) in enumerate(flt.entries):
                if x_ != y_ and p <= r and q <= s:
                    viol.append(V(ID, "dominated", "after op %d entry (%r,%r) is dominated by (%r,%r)" % (i, r, s, p, q), sub, ctx))
                    break
    nt = refused and removed
    if nt:
        bump("nontrivial")
    keys = [repr(c["history"])[:200] + kind] if nt else []
    return {"violations": viol[:1], "stats": stats, "keys": keys, "executions": 1, "sample": {"kind": kind, "rho0": c["rho0"], "ops": c["history"][:12]}}


def case(world):
    if world["case"].get("mode") == "ops":
        return _ops_case(world)
    stats = {}
    ex = execute(world)
    viol = check_C18_live(ex)
    if world["case"].get("resolve") and ex.solver is not None and ex.trials and not viol:
        # the same solver object solves again: every operation of the live filter is still one step of the set model
        ex2 = execute(world, problem=ex.problem, solver=ex.solver)
        stats["live.resolved"] = 1
        viol = check_C18_live(ex2, {"variant": "resolved"})
    ups = sum(1 for t in ex.trials if t.filter_after is not None)
    vet = sum(1 for t in ex.trials if t.penalty is not None and not t.penalty[1])
    stats["live.updates"] = ups
    stats["live.vetoes"] = vet
    stats["live." + ex.outcome.split("@")[0]] = 1
    mx = max([len(t.filter_after[0]) for t in ex.trials if t.filter_after is not None] + [0])
    keys = []
    if vet and ups > vet:
        stats["nontrivial"] = 1
        keys.append(ex.traj_digest()[:16])
    return {"violations": viol, "stats": stats, "keys": keys, "executions": 1, "sample": small_sample(world, {"outcome": ex.outcome, "filter_updates": ups, "vetoes": vet}), "max": {"live_filter_entries": mx}}


def base_digest(world):
    return None
