"""C09 -- observation does not perturb the computation.
Schedules: the virtual clock decides which rows are displayed; the observer set
is the second party (log level + formatting handler, callbacks, path, rcond)."""
import copy

from .. import gen
from ..runner import execute
from .common import V, knob_key, seam_violations, small_sample

ID = "C09"
LEVEL = "exploration"
RULE = (
    "world = generated problem x algorithmic configuration; the silent run (level CRITICAL, no callbacks, no displayed row, "
    "no path, no rcond) is compared byte-wise (every trial step, status, x, y, d, counters) with seeded observer variants: "
    "log level WARNING/INFO/DEBUG with a formatting handler, display interval None/0/0.1 under clock patterns that display "
    "all/none/some rows, a callback that reads every cached quantity of both iterates, collect_path, report_rcond, and "
    "injected failures of the condition estimator's own linear solves; a variant is non-trivial when it produced at least "
    "one log record, displayed row, callback or extra linear solve; distinct = distinct (silent trajectory digest, variant)"
)
ASSUMPTIONS = [
    "a logging handler that formats records behaves like logging.StreamHandler (formatting errors are reported by logging, not raised)",
    "algorithmic parameters are identical in both runs; only level, display_interval, callbacks, collect_path, report_rcond and the clock plan differ",
]
TIERS = {
    "quick": {"worlds": 600, "wall": 150, "cap": 30, "limit": 90.0},
    "thorough": {"worlds": 6000, "wall": 1700, "cap": 120, "limit": 240.0},
}
GATES = ("silent.region_fault_fired", "variant.debug", "variant.rows_displayed", "variant.touch", "variant.rcond", "variant.path", "observer.log_records", "observer.rows")


def _variant(rng):
    v = {"obs": {"level": str(rng.choice(["CRITICAL", "WARNING", "INFO", "DEBUG"], p=[0.1, 0.2, 0.3, 0.4])), "callbacks": (["touch"] if rng.random() < 0.5 else []) + (["reenter"] if rng.random() < 0.12 else []) + ([str(rng.choice(["oneshot", "spawner", "scribble"]))] if rng.random() < 0.2 else [])}, "params": {}, "faults": []}
    di = rng.choice(["none", "zero", "0.1", "huge"], p=[0.25, 0.3, 0.35, 0.1])
    v["params"]["display_interval"] = {"none": None, "zero": 0.0, "0.1": 0.1, "huge": 1e18}[str(di)]
    v["clock"] = gen.gen_clock(rng, n=600)
    if rng.random() < 0.4:
        v["params"]["collect_path"] = True
    if rng.random() < 0.4:
        v["params"]["report_rcond"] = True
        if rng.random() < 0.4:
            v["faults"] = [{"dev": "lin", "op": "obs_solve", "at": int(rng.integers(1, 30))}]
    return v


def generate(rng, seed, index, tier):
    fam = str(rng.choice(["qp", "nlp", "degenerate", "domain", "infeasible", "unbounded", "expo"], p=[0.27, 0.27, 0.1, 0.1, 0.08, 0.08, 0.1]))
    spec, x0, y0 = gen.gen_problem(rng, fam)
    if rng.random() < 0.3:
        spec["xzeros"] = True  # matrices with a fixed pattern that stores some zeros
    kw = gen.gen_params(rng, spec, x0, y0, p_knob=0.5, reporting=False, numeric=0.2)
    kw["iteration_limit"] = int(rng.integers(3, TIERS[tier]["cap"] + 1))
    kw = gen.quiet_params(kw)
    faults = []
    if rng.random() < 0.3:
        # a persistent failing region (state-free, so extra evaluations made by observers cannot
        # shift it): the start is outside of it, the trajectory may run into it
        import numpy as np

        a = np.round(rng.normal(size=spec["n"]), 2)
        if np.any(a):
            comp = str(rng.choice(["obj", "grad", "cons", "jac"])) if spec["m"] else str(rng.choice(["obj", "grad"]))
            faults = [{"dev": "eval", "comp": comp, "kind": "nan", "region": {"a": a.tolist(), "b": float(a @ np.asarray(x0, float)) + float(rng.choice([0.05, 0.5]))}}]
    if rng.random() < 0.08:
        # a callback that cannot be evaluated at the start itself, in a run that hardly leaves it: whether and
        # how the solve fails must not depend on who is watching
        faults = [{"dev": "eval", "comp": str(rng.choice(["hess", "hess", "obj", "jac"])) if spec["m"] else "hess", "at_x0": True, "kind": "nan"}]
        kw["iteration_limit"] = int(rng.choice([0, 1, 2]))
    variants = [_variant(rng) for _ in range(6)]
    # one variant is always the loudest
    variants[0]["obs"]["level"] = "DEBUG"
    variants[0]["params"]["display_interval"] = 0.0
    return gen.base_world(seed, ID, index, spec, x0, y0, kw, faults=faults, case={"variants": variants})


def apply_variant(world, v):
    w = copy.deepcopy(world)
    w["obs"] = v["obs"]
    w["params"].update(v["params"])
    w["clock"] = v["clock"]
    w["faults"] = list(world.get("faults", [])) + list(v.get("faults", []))
    return w


def case(world):
    only = (world.get("case") or {}).get("only")
    stats = {}

    def bump(k, n=1):
        stats[k] = stats.get(k, 0) + n

    R = execute(world)
    seam_violations(R, ID)
    execs = 1
    if R.problem.fired:
        bump("silent.region_fault_fired")
    bump("ref." + R.outcome.split("@")[0])
    rdig = R.traj_digest()
    if R.handler.records:
        bump("silent_run_logged_records")
    viol, keys = [], []
    ctx0 = {"knobs": knob_key(world)}
    vsec = 0.0
    for vi, v in enumerate(world["case"]["variants"]):
        sub = {"variant": vi}
        if only is not None and only != sub:
            continue
        S = execute(apply_variant(world, v))
        execs += 1
        vsec += S.clock.t - S.clock.t0
        lvl = v["obs"]["level"]
        rows = sum(1 for (w_, _) in S.clock.reads if w_.startswith("SimpleTimer.reset"))
        if v["params"].get("display_interval", 0.1) is None:
            rows = len(S.trials)
        nontrivial = bool(S.handler.records or rows or v["obs"]["callbacks"] or S.lin_counts[2])
        bump("variant." + lvl.lower())
        if rows:
            bump("variant.rows_displayed")
            bump("observer.rows", rows)
        if v["obs"]["callbacks"]:
            bump("variant.touch")
        if v["params"].get("report_rcond"):
            bump("variant.rcond")
            bump("observer.rcond_solves", S.lin_counts[2])
        if v["params"].get("collect_path"):
            bump("variant.path")
        if any(f[0] == "obs_solve" for f in S.lin_fired):
            bump("fired.lin.obs_solve")
        bump("observer.log_records", len(S.handler.records))
        if S.handler.format_errors:
            bump("observer.format_errors", S.handler.format_errors)
        ctx = dict(ctx0, level=lvl, display_interval=v["params"].get("display_interval"), rcond=bool(v["params"].get("report_rcond")), path=bool(v["params"].get("collect_path")), touch=bool(v["obs"]["callbacks"]))
        sdig = S.traj_digest()
        if sdig != rdig:
            if S.result is None and R.result is not None:
                viol.append(V(ID, "observer-made-it-fail", "silent run ended %s, observed run raised %s (%s)" % (R.outcome, S.outcome, (S.exc_msg or "")[:80]), sub, ctx, sig_extra="%s@%s" % (S.exc_type, S.exc_func)))
            elif S.result is None or R.result is None:
                viol.append(V(ID, "outcome-differs", "silent run ended %s, observed run %s" % (R.outcome, S.outcome), sub, ctx, sig_extra="%s@%s" % (S.exc_type, S.exc_func)))
            else:
                # first differing trial
                t = 0
                while t < min(len(R.trials), len(S.trials)) and R.trials[t].key() == S.trials[t].key():
                    t += 1
                viol.append(V(ID, "trajectory-differs", "observed run differs from the silent run at trial %d (status %s vs %s)" % (t, S.status, R.status), sub, dict(ctx, t=t)))
        if nontrivial:
            keys.append("%s:%s:%s:%s:%d" % (rdig[:12], lvl, v["params"].get("display_interval"), "".join(sorted(k[0] for k in v["params"])), vi))
    sample = small_sample(world, {"silent": {"outcome": R.outcome, "trials": len(R.trials)}, "variants": [{k: (vv if k != "clock" else {"tail": vv.get("tail"), "steps": vv.get("steps", [])[:8]}) for k, vv in v.items()} for v in world["case"]["variants"][:2]]})
    return {"violations": viol, "stats": stats, "keys": keys, "executions": execs, "sample": sample, "virtual_seconds": vsec}
