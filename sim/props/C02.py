"""C02 -- non-optimal terminal statuses are justified by the returned point."""
import numpy as np

from .. import gen
from ..clock import is_timer_limit_read, is_timer_start
from ..model import infeas_stationarity, tolerances, weights_of
from ..runner import execute
from ..util import EPS
from .common import V, finite_result, knob_key, seam_violations, small_sample

ID = "C02"
LEVEL = "exploration"
RULE = (
    "world = generated problem (infeasible, unbounded, degenerate, qp, nlp families) x configuration swarm, iteration limits often below "
    "the natural length (incl. 0, 1, 2), finite time limits in half of the worlds under virtual-clock plans that cross the deadline at a "
    "seeded read (stalls, huge increments, one backward jump); every non-Optimal ending is judged by the clause of its status; a run is "
    "non-trivial when its status is not Optimal; distinct = distinct (status, family, trajectory digest)"
)
ASSUMPTIONS = [
    "LocallyInfeasible is judged on the final internal iterate (scaled variables + slacks) reconstructed by the reference transformation, with a user-space cross-check on result.x",
    "TimeLimit is judged against the virtual clock's read log: some deadline check of the solver's own timer must have seen elapsed >= time_limit",
]
TIERS = {"quick": {"worlds": 2200, "wall": 150, "limit": 60.0}, "thorough": {"worlds": 50000, "wall": 1700, "limit": 200.0}}
GATES = ("status.LocallyInfeasible", "status.Unbounded", "status.IterationLimit", "status.TimeLimit", "nontrivial")


def generate(rng, seed, index, tier):
    fam = str(rng.choice(["infeasible", "unbounded", "degenerate", "qp", "nlp"], p=[0.3, 0.25, 0.1, 0.2, 0.15]))
    spec, x0, y0 = gen.gen_problem(rng, fam)
    x0 = gen.magnify(rng, spec, x0, p=0.1)
    nearly = fam in ("qp", "degenerate") and rng.random() < 0.25
    if nearly:
        # many copies of one equation whose right-hand sides disagree by a fraction of the tolerance: every
        # row can be met within opt_tol, although no point meets them exactly (the violation measure is per row)
        import numpy as np

        n = spec["n"]
        mm = int(rng.integers(4, 8))
        a = np.round(rng.normal(size=n), 2)
        if not np.any(a):
            a[0] = 1.0
        a = a / np.abs(a).max()  # largest coefficient 1: a unit step changes the row by about one
        r = float(np.round(a @ np.clip(np.zeros(n), spec["xl"], spec["xu"]), 3))
        amp = float(rng.choice([0.55, 0.8, 0.95])) * 1e-6
        rhs = np.array([r + amp * (1 if i % 2 else -1) for i in range(mm)])
        spec.update(m=mm, A=np.tile(a, (mm, 1)), B=np.zeros((mm, n)), b=np.zeros(mm), cl=rhs.copy(), cu=rhs.copy(), a=np.zeros(n), dom=None, expo=None, family="nearly-consistent")
        spec.pop("magnified", None)
        y0 = np.zeros(mm)
    kw = gen.gen_params(rng, spec, x0, y0, p_knob=0.45, reporting=False, globalized=False, numeric=0.15)
    kw["iteration_limit"] = int(rng.choice([0, 1, 2, 3, 10, 30, 200, 600], p=[0.03, 0.04, 0.04, 0.09, 0.2, 0.25, 0.25, 0.1]))
    clock = gen.gen_clock(rng, n=3000, kind=str(rng.choice(["const", "tick", "random", "stall-jump"], p=[0.15, 0.2, 0.3, 0.35])))
    if rng.random() < 0.3:
        clock["gap_before_solve"] = float(rng.choice([0.5, 10.0, 1e4]))
    if rng.random() < 0.12:
        # C02 quantifies over all starts: also starts outside the variable box
        import numpy as np

        x0 = np.asarray(x0, float) + np.round(rng.normal(size=spec["n"]) * 2, 3)
    if rng.random() < 0.5:
        kw["time_limit"] = float(rng.choice([0.0, 0.05, 0.5, 5.0, 50.0], p=[0.06, 0.24, 0.25, 0.25, 0.2]))
    if fam == "unbounded" and rng.random() < 0.5:
        kw["obj_lower_limit"] = float(rng.choice([-1e3, -1e6]))
    kw["display_interval"] = float(rng.choice([0.1, 1e18]))
    if nearly:
        for k_ in ("opt_tol", "scaling_type", "scaling", "scaling_primal", "scaling_dual"):
            kw.pop(k_, None)
        kw["iteration_limit"] = int(rng.choice([200, 600]))
    if rng.random() < 0.3 and not nearly:
        # the three tolerances of the status tests are independent parameters
        kw["local_infeas_tol"] = float(rng.choice([1e-10, 1e-8, 1e-6, 1e-4]))
        kw["active_tol"] = float(rng.choice([1e-10, 1e-8, 1e-5, 1e-3]))
        if rng.random() < 0.5:
            kw["opt_tol"] = float(rng.choice([1e-8, 1e-6, 1e-4]))
    obs = gen.silent_obs()
    if rng.random() < 0.3:
        obs = {"level": "CRITICAL", "callbacks": ["touch"]}  # an observer that asks the iterates its own questions
    return gen.base_world(seed, ID, index, spec, x0, y0, kw, clock=clock, obs=obs)


def status_check(ex, prop=ID, sub=None):
    out = []
    r = ex.result
    if r is None:
        if ex.aborted:
            out.append(V(prop, "iteration-limit", "the solve performed more trial steps than iteration_limit=%r allows (stopped by the simulator's step cap after %d)" % (ex.params.iteration_limit, len(ex.trials)), sub, {"status": "none"}))
        return out
    prm = ex.params
    um = ex.problem.um
    st = ex.status
    ctx = {"status": st}
    if not finite_result(r):
        out.append(V(prop, "nonfinite", "status %s with non-finite x, y or d" % st, sub, ctx))
        return out
    if np.shape(r.x) != um.xl.shape or np.shape(r.y) != um.cl.shape:
        out.append(V(prop, "bounds", "status %s but the returned x / y have shapes %s / %s (problem: %d variables, %d rows)" % (st, np.shape(r.x), np.shape(r.y), um.n, um.m), sub, ctx))
        return out
    if um.in_bounds(ex.x0) and ((r.x < um.xl).any() or (r.x > um.xu).any()):
        out.append(V(prop, "bounds", "status %s but returned x violates the variable bounds (the start satisfied them)" % st, sub, ctx))
    lim = prm.iteration_limit
    if lim is not None:
        if r.iterations > lim or len(ex.trials) != r.iterations:
            out.append(V(prop, "iteration-limit", "iterations=%d trials=%d limit=%d" % (r.iterations, len(ex.trials), lim), sub, ctx))
        elif (st == "IterationLimit") != (r.iterations == lim):
            out.append(V(prop, "iteration-limit", "status %s with iterations=%d, limit=%d" % (st, r.iterations, lim), sub, ctx))
    elif st == "IterationLimit":
        out.append(V(prop, "iteration-limit", "IterationLimit without a limit", sub, ctx))
    if st == "TimeLimit":
        reads = ex.clock.reads
        # the deadline is time_limit after the solve began: the reference origin is the solver's
        # own timer start (a clock read made inside solve()), or, should the code not read the
        # clock there, the virtual time at which solve() was called
        starts = [v for i, (w, v) in enumerate(reads) if is_timer_start(w) and i >= ex.reads_at_begin]
        origin = starts[0] if starts else ex.t_begin
        ok = False
        if np.isfinite(prm.time_limit):
            ok = any(v - origin >= prm.time_limit for (w, v) in reads)
        if not ok:
            out.append(V(prop, "time-limit", "TimeLimit returned but at most %r virtual seconds had passed since the solve began (time_limit=%r)" % (max([v for (_, v) in reads] + [origin]) - origin, prm.time_limit), sub, ctx))
    if st in ("LocallyInfeasible", "Unbounded"):
        rt = ex.ref_transform()
        wv, wc, wo = rt.wv, rt.wc, rt.wo
        fin = ex.final_iterate()
        if fin is not None and fin.x.size == rt.N:
            xi = fin.x
        elif fin is not None:
            # the code's internal problem does not have the shape of the reference reformulation (C04's subject):
            # judge the returned point itself, with the slacks at their best values
            xi, _ = rt.to_internal(r.x, r.y)
        else:
            xi, _ = rt.to_internal(ex.x0, ex.y0)
        tol = prm.opt_tol
        tx, tc, ty, ax, ac = tolerances(tol, prm.active_tol, wv, wc, wo)
        c = um.c(r.x) if um.m else np.zeros(0)
        Sc = (np.abs(um.A) @ np.abs(r.x) + 0.5 * np.abs(um.B) @ (r.x * r.x) + np.abs(um.b) + 1.0) if um.m else np.zeros(0)
        dist = np.maximum(np.maximum(um.cl - c, c - um.cu), 0.0) if um.m else np.zeros(0)
        if st == "LocallyInfeasible":
            viol, pg, S = infeas_stationarity(rt, xi, prm.active_tol)
            if not viol > tol * (1 - 1e-9):
                out.append(V(prop, "infeasible-not-violated", "LocallyInfeasible but the constraint violation %r does not exceed opt_tol %r" % (viol, tol), sub, ctx))
            bad = pg > prm.local_infeas_tol * (1 + 1e-9) + 64 * EPS * (S + 1.0)
            if bad.any():
                j = int(np.argmax(bad))
                out.append(V(prop, "infeasible-not-stationary", "LocallyInfeasible but the projected gradient of the violation measure is %r in component %d (tol %r)" % (float(pg[j]), j, prm.local_infeas_tol), sub, ctx))
            if um.m:
                sd = np.ldexp(dist, wc)
                if not sd.max() >= tol - 2 * (prm.active_tol + prm.local_infeas_tol) - 64 * EPS * float(np.ldexp(Sc, wc).max()):
                    out.append(V(prop, "infeasible-not-violated", "LocallyInfeasible but c(result.x) is within the constraint bounds up to %r (scaled units)" % float(sd.max()), sub, ctx))
            else:
                out.append(V(prop, "infeasible-not-violated", "LocallyInfeasible on a problem without constraints", sub, ctx))
        else:
            f = float(np.ldexp(um.f(r.x), wo))
            if not f <= prm.obj_lower_limit:
                out.append(V(prop, "unbounded-objective", "Unbounded but the scaled objective %r is above the limit %r" % (f, prm.obj_lower_limit), sub, ctx))
            if um.m and (dist > tc * (1 + 1e-9) + 64 * EPS * Sc).any():
                i = int(np.argmax(dist - tc))
                out.append(V(prop, "unbounded-infeasible", "Unbounded but row %d is violated by %r (tol %r)" % (i, float(dist[i]), float(tc[i])), sub, ctx))
    return out


def case(world):
    stats = {}

    def bump(k, n=1):
        stats[k] = stats.get(k, 0) + n

    ex = execute(world)
    seam_violations(ex, ID)
    bump("outcome." + ex.outcome.split("@")[0])
    viol, keys = [], []
    if ex.result is not None:
        bump("status." + ex.status)
        viol = status_check(ex)
        for v in viol:
            v["ctx"]["knobs"] = knob_key(world)
        if ex.status != "Optimal":
            bump("nontrivial")
            keys.append("%s:%s:%s" % (ex.status, world["problem"]["family"], ex.traj_digest()[:12]))
        if np.isfinite(ex.params.time_limit):
            bump("finite_time_limit")
    return {"violations": viol, "stats": stats, "keys": keys, "executions": 1, "sample": small_sample(world, {"outcome": ex.outcome, "clock_kind": {"tail": world["clock"].get("tail"), "nsteps": len(world["clock"].get("steps", []))}}), "virtual_seconds": ex.clock.t - ex.clock.t0}
