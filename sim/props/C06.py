"""C06 -- solve() ends with a status or a deliberate error, never an internal crash."""
import numpy as np

from .. import gen
from ..runner import execute
from .common import V, finite_result, knob_key, nondefault_knobs, seam_violations, small_sample

ID = "C06"
LEVEL = "exploration"
RULE = (
    "world = adversarial problem families (feasible, infeasible, unbounded, degenerate/rank-deficient, non-convex with exactly singular step matrices, domain-restricted, fixed "
    "variables, zero constraints, n = 1) x every supported knob combination (Newton type, step solver, linear solver, step control, "
    "penalty policy, active-set rule, scaling, rho, lambda settings, validate_input, derivative check) x reporting options (log level, "
    "display interval, rcond, path, callbacks) x virtual-clock plans (finite time limits, displayed rows); no device faults (finite "
    "functions); a world is non-trivial when >= 2 algorithmic knobs leave their defaults; distinct = distinct (knob tuple, family)"
)
ASSUMPTIONS = [
    "supported set: DESIGN.md section 3.3 (no Precision.Single, no optional dependencies that are absent here, no argument combinations rejected by explicit checks)",
    "numpy floating-point warnings are not errors (the library does not enable them)",
]
TIERS = {"quick": {"worlds": 2600, "wall": 160, "limit": 60.0}, "thorough": {"worlds": 60000, "wall": 1700, "limit": 240.0}}
GATES = ("nontrivial", "outcome.status:Optimal", "outcome.status:LocallyInfeasible", "outcome.status:Unbounded", "outcome.deliberate:Inverse step size")


def generate(rng, seed, index, tier):
    fam = str(rng.choice(["qp", "nlp", "infeasible", "unbounded", "degenerate", "domain", "zero-cons", "saddle"], p=[0.17, 0.17, 0.13, 0.13, 0.13, 0.05, 0.1, 0.12]))
    spec, x0, y0 = gen.gen_problem(rng, fam, fixed_prob=0.4)
    x0 = gen.magnify(rng, spec, x0, p=0.12)
    x0, y0, sform = gen.start_forms(rng, spec, x0, y0, p=0.1)
    kw = gen.gen_params(rng, spec, x0, y0, p_knob=0.6, reporting=True, numeric=0.3)
    kw["iteration_limit"] = int(rng.choice([5, 50, 300, 1000], p=[0.15, 0.45, 0.25, 0.15]))
    if rng.random() < 0.2:
        kw["time_limit"] = float(rng.choice([0.05, 0.5, 5.0]))
    if rng.random() < 0.1:
        kw["validate_input"] = False
    if rng.random() < 0.1:
        kw["deriv_check"] = str(rng.choice(["CheckFirst", "CheckSecond", "CheckAll"]))
    if fam == "saddle" and rng.random() < 0.7:
        kw.pop("lamb_init", None)  # lambda starts at 1 and moves by factors of two
        kw.pop("scaling_type", None)
        kw.pop("scaling", None)
        kw.pop("scaling_primal", None)
        kw.pop("scaling_dual", None)
    if rng.random() < 0.1:
        kw["lamb_max"] = float(rng.choice([10.0, 1e4, 1e8]))
    if rng.random() < 0.1:
        kw["lamb_inc"] = float(rng.choice([1.5, 4.0]))
    kw["display_interval"] = {"none": None, "zero": 0.0, "0.1": 0.1, "huge": 1e18}[str(rng.choice(["none", "zero", "0.1", "huge"], p=[0.15, 0.2, 0.45, 0.2]))]
    return gen.base_world(seed, ID, index, spec, x0, y0, kw, clock=gen.gen_clock(rng, n=1500), obs=gen.gen_obs(rng), start_form=sform)


def case(world):
    stats = {}

    def bump(k, n=1):
        stats[k] = stats.get(k, 0) + n

    ex = execute(world)
    seam_violations(ex, ID)
    oc = ex.outcome
    bump("outcome." + oc.split("@")[0])
    viol, keys = [], []
    ctx = {"knobs": knob_key(world), "level": world["obs"].get("level")}
    # root-cause marker for known finding F08: the penalty handed to a trial step (or held by
    # the live penalty strategy) has overflowed to a non-finite value
    ps_rho = getattr(getattr(ex.solver, "penalty_strategy", None), "rho", 1.0)
    # (non-finite, or so large - beyond 1e150, i.e. more than 150 consecutive tenfold raises - that 1/(1 + lambda rho)
    # underflows: the same run-away, caught one step earlier)
    def _runaway(r):
        return (not np.isfinite(r)) or abs(r) > 1e150

    ctx["rho_overflow"] = bool(any(_runaway(t.rho) for t in ex.trials) or _runaway(ps_rho))
    if oc.startswith("crash:"):
        viol.append(V(ID, "internal-crash", "solve() died with %s in %s: %s" % (ex.exc_type, ex.exc_func, (ex.exc_msg or "")[:120]), None, dict(ctx, chain=list(ex.exc_chain)), sig_extra="%s@%s" % (ex.exc_type, ex.exc_func)))
    elif ex.result is not None:
        if ex.status not in ("Optimal", "IterationLimit", "TimeLimit", "Unbounded", "LocallyInfeasible"):
            viol.append(V(ID, "unknown-status", "status %r" % ex.status, None, ctx))
        if not finite_result(ex.result):
            viol.append(V(ID, "nonfinite-result", "status %s with non-finite x, y or d" % ex.status, None, ctx))
    if nondefault_knobs(world) >= 2:
        bump("nontrivial")
        keys.append(knob_key(world))
    if ex.handler.format_errors:
        bump("log_format_errors", ex.handler.format_errors)
    return {"violations": viol, "stats": stats, "keys": keys, "executions": 1, "sample": small_sample(world, {"outcome": oc}), "virtual_seconds": ex.clock.t - ex.clock.t0}
