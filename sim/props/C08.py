"""C08 -- stopping early returns exactly a prefix of the unlimited run.
Crash-point enumeration: iteration_limit = k for every k, deadline expiring at
clock read j for every j (including reads inside the exact Newton loop)."""
import copy

import numpy as np

from .. import gen
from ..clock import is_timer_limit_read, is_timer_start
from ..runner import execute
from .common import V, chain_accept, iterate_after, knob_key, same_point, seam_violations, small_sample

ID = "C08"
LEVEL = "fault_enumeration"
RULE = (
    "world = generated problem x supported configuration (no faults, quiet display); the reference run is stopped at "
    "every iteration budget k and at every clock-read index j (all positions when the reference has <= cap trials, "
    "seeded sample otherwise); a case (world, stop point) is non-trivial when the reference run has >= 2 trials and the "
    "stop falls before its natural end; distinct = distinct (trajectory digest of the reference, stop point)"
)
ASSUMPTIONS = [
    "the clock is only read through pygradflow.timer.time (probe: a completed solve with < 2 reads is a harness failure)",
    "trial steps are observed through Solver._compute_step (probe: iterations > 0 with no logged trial is a harness failure)",
    "the stop moment of a deadline is the first read made by the solver's Timer at or after the expiry (Display reads share the clock but cannot stop the solver)",
]
TIERS = {
    "quick": {"worlds": 280, "wall": 150, "cap": 20, "limit": 90.0, "max_points": 40},
    "thorough": {"worlds": 2400, "wall": 1500, "cap": 80, "limit": 240.0, "max_points": 64},
}
# (the integration-solver worlds are reach probes, not gates: they hang on that solver's path bookkeeping)
GATES = ("reference.with_failed_trials", "stops.deadline.with_display_rows", "stops.iter", "stops.deadline", "stops.deadline.inner", "stops.iter.reused_solver", "nontrivial")


def generate(rng, seed, index, tier):
    if rng.random() < 0.1:
        # the flow-integration solver has the same two limits (one deadline check per integration)
        fam = str(rng.choice(["qp", "nlp"]))
        spec, x0, y0 = gen.gen_problem(rng, fam)
        kw = {"iteration_limit": int(rng.integers(3, 9)), "collect_path": True, "display_interval": float(rng.choice([0.0, 1e18]))}
        if rng.random() < 0.3:
            kw["scaling_type"] = "Custom"
            kw["scaling"] = {"var": rng.integers(-2, 3, size=spec["n"]).tolist(), "cons": rng.integers(-2, 3, size=spec["m"]).tolist(), "obj": int(rng.integers(-1, 2))}
        return gen.base_world(seed, ID, index, spec, x0, y0, kw, clock={"steps": [], "tail": float(rng.choice([0.0, 0.03]))}, solver="integration", case={"pts_seed": int(rng.integers(0, 2**31))})
    fam = str(rng.choice(["qp", "nlp", "degenerate", "domain", "infeasible", "saddle", "expo"], p=[0.3, 0.3, 0.08, 0.08, 0.08, 0.08, 0.08]))
    spec, x0, y0 = gen.gen_problem(rng, fam)
    kw = gen.gen_params(rng, spec, x0, y0, p_knob=0.5, reporting=False, numeric=0.2)
    if rng.random() < 0.4:
        kw["step_control_type"] = "Exact"
    if rng.random() < 0.3:
        kw["collect_path"] = True
    cap = TIERS[tier]["cap"]
    kw["iteration_limit"] = int(rng.integers(5, cap + 1))
    kw = gen.quiet_params(kw)
    if rng.random() < 0.3:
        # displayed rows share the clock with the deadline (they read and reset their own timer);
        # the stop moment is still the solver's next own deadline check
        kw["display_interval"] = float(rng.choice([0.0, 0.1]))
    pts_seed = int(rng.integers(0, 2**31))
    clock = {"steps": [], "tail": float(rng.choice([0.0, 0.03]))} if kw["display_interval"] < 1e17 else None
    faults = []
    if rng.random() < 0.25:
        # a persistent, state-free failing region: reference and stopped runs meet the same failed
        # trial steps, and stops land right after them
        a = np.round(rng.normal(size=spec["n"]), 2)
        if np.any(a):
            comp = str(rng.choice(["obj", "grad", "cons", "jac"])) if spec["m"] else str(rng.choice(["obj", "grad"]))
            faults = [{"dev": "eval", "comp": comp, "kind": "nan", "region": {"a": a.tolist(), "b": float(a @ np.asarray(x0, float)) + float(rng.choice([0.05, 0.5]))}}]
    return gen.base_world(seed, ID, index, spec, x0, y0, kw, clock=clock, faults=faults, case={"max_points": TIERS[tier]["max_points"], "pts_seed": pts_seed})


def _points(all_pts, maxn, seed, must=()):
    all_pts = list(all_pts)
    if len(all_pts) <= maxn:
        return all_pts, True
    rng = np.random.default_rng(seed)
    keep = set(m for m in must if m in all_pts)
    rest = [p for p in all_pts if p not in keep]
    extra = max(0, min(len(rest), maxn - len(keep)))
    if extra:
        pick = rng.choice(len(rest), size=extra, replace=False)
        keep.update(rest[int(i)] for i in pick)
    return sorted(keep), False


def _compare_prefix(R, S, p, racc, rt, sub, ctx, allow_aborted, expect_status):
    """S must be R's first p trials (+ optionally one aborted trial)."""
    out = []
    rk = [t.key() for t in R.trials[:p]]
    sk = [t.key() for t in S.trials]
    if S.result is None:
        out.append(V(ID, "stopped-run-raised", "stopped run ended with %s, reference prefix is fine" % S.outcome, sub, ctx))
        return out
    extra = len(sk) - p
    if sk[:p] != rk or extra not in ((0, 1) if allow_aborted else (0,)):
        out.append(V(ID, "prefix", "trial log of the stopped run (%d trials) is not the first %d trials of the reference" % (len(sk), p), sub, ctx))
        return out
    if extra == 1:
        t = S.trials[-1]
        if t.accepted or not same_point(t.out, t.inp):
            out.append(V(ID, "aborted-trial", "extra trial after the deadline is not a clean abort (accepted=%s, same iterate=%s)" % (t.accepted, same_point(t.out, t.inp)), sub, ctx))
    if S.status not in expect_status:
        out.append(V(ID, "status", "status %s, expected one of %s" % (S.status, sorted(expect_status)), sub, ctx))
    A = iterate_after(R, p, racc)
    r = S.result
    if A is not None:
        x, y, d = rt.to_user(A.x, A.y, A.bounds_dual)
        if x.tobytes() != r.x.tobytes() or y.tobytes() != r.y.tobytes() or d.tobytes() != r.d.tobytes():
            out.append(V(ID, "result", "returned x/y/d are not the last iterate accepted before the stop", sub, ctx))
    nacc = sum(1 for a in racc[:p] if a)
    if r.iterations != len(S.trials) or r.num_accepted_steps != nacc:
        out.append(V(ID, "counters", "iterations=%d (trials %d), accepted=%d (reference prefix %d)" % (r.iterations, len(S.trials), r.num_accepted_steps, nacc), sub, ctx))
    if R.result is not None and R.result.path is not None or (S.result.path is not None):
        sp_, st_ = S.result.path, S.result.model_times
        if sp_ is None or sp_.shape[1] != nacc + 1:
            out.append(V(ID, "path", "path of the stopped run has %s columns, expected %d" % (None if sp_ is None else sp_.shape[1], nacc + 1), sub, ctx))
        elif R.result is not None and R.result.path is not None:
            rp_, rtm = R.result.path, R.result.model_times
            if sp_.tobytes() != np.ascontiguousarray(rp_[:, : nacc + 1]).tobytes() or st_.tobytes() != rtm[: nacc + 1].tobytes():
                out.append(V(ID, "path", "path/model_times of the stopped run are not a prefix of the reference's", sub, ctx))
    return out


def _res_bytes(r):
    return (r.x.tobytes(), r.y.tobytes(), r.d.tobytes())


def _integration_case(world):
    """The flow-integration solver under the same two limits.  It has no trial log; its state after p
    integrations is the end of the p-th path segment (kept on the solver object), and the stopped
    run's result is compared with the run limited to p iterations (two executions of the same code)."""
    only = (world.get("case") or {}).get("only")
    stats, viol, keys = {}, [], []

    def bump(k, n=1):
        stats[k] = stats.get(k, 0) + n

    R = execute(world)
    execs = 1
    bump("integration.ref." + R.outcome.split("@")[0])
    if R.result is None or R.result.iterations < 1 or not getattr(R.solver, "path", None):
        return {"violations": [], "stats": stats, "keys": [], "executions": 1, "sample": None}
    L = int(R.result.iterations)
    segs = R.solver.path  # [start column] + one segment per integration
    tsegs = R.solver.path_times
    if len(segs) != L + 1 or len(tsegs) != L + 1:
        stats["integration.seam_unavailable"] = 1  # the per-integration path segments are not what this harness expects
        return {"violations": [], "stats": stats, "keys": [], "executions": 1, "sample": None}
    ctx0 = {"solver": "integration"}
    rdig = "int:" + R.result.x.tobytes().hex()[:12]

    def check_state(S, p, sub, ctx, expect_status):
        out = []
        if S.result is None:
            out.append(V(ID, "stopped-run-raised", "stopped integration run ended with %s" % S.outcome, sub, ctx))
            return out
        r = S.result
        if r.iterations != p:
            out.append(V(ID, "counters", "stopped after %d integrations but reports iterations=%d" % (p, r.iterations), sub, ctx))
        if expect_status is not None and S.status not in expect_status:
            out.append(V(ID, "status", "status %s, expected one of %s" % (S.status, sorted(expect_status)), sub, ctx))
        zp = segs[p][:, -1]
        rt = R.ref_transform()
        x, y, _ = rt.to_user(zp[: rt.N], zp[rt.N :], np.zeros(rt.N))
        if x.tobytes() != r.x.tobytes() or y.tobytes() != r.y.tobytes():
            out.append(V(ID, "result", "returned x/y are not the state the reference had after %d integrations" % p, sub, ctx))
        if r.path is None:
            out.append(V(ID, "path", "no path although collect_path is on", sub, ctx))
        else:
            ep = np.hstack(segs[: p + 1])
            et = np.hstack(tsegs[: p + 1])
            if r.path.shape != ep.shape or r.path.tobytes() != np.ascontiguousarray(ep).tobytes() or r.model_times.tobytes() != np.ascontiguousarray(et).tobytes():
                out.append(V(ID, "path", "path/model_times of the stopped run (%s columns) are not the reference's first %d segments (%d columns)" % (r.path.shape[1], p, ep.shape[1]), sub, ctx))
            elif r.path[:, -1].tobytes() != zp.tobytes():
                out.append(V(ID, "path", "the path does not end in the returned state", sub, ctx))
        return out

    byk = {}
    for k in range(1, L + 1):
        sub = {"ik": k}
        if only is not None and only != sub and not ("ij" in (only or {})):
            continue
        S = execute(dict(world, params=dict(world["params"], iteration_limit=k)))
        execs += 1
        bump("stops.integration.iter")
        byk[k] = S
        # with the budget equal to the natural length both endings are legitimate: the reference's own status, or
        # IterationLimit when the reference only noticed its natural end at the top of the next iteration
        exp = {"IterationLimit"} if k < L else {R.status, "IterationLimit"}
        viol += check_state(S, k, sub, dict(ctx0, t=k), exp)
        if k < L:
            bump("nontrivial")
            keys.append("%s:ik%d" % (rdig, k))
    reads = R.clock.reads
    starts = [i for i, (w, _) in enumerate(reads) if is_timer_start(w)]
    start = starts[0] if starts else -1
    limit_reads = [i for i, (w, _) in enumerate(reads) if is_timer_limit_read(w)]
    if not limit_reads:
        stats["integration.no_limit_read"] = 1
        return {"violations": viol, "stats": stats, "keys": keys, "executions": execs, "sample": None}
    for j in range(start + 1, len(reads) + 1):
        sub = {"ij": j}
        if only is not None and only != sub:
            continue
        w2 = copy.deepcopy(world)
        w2["params"]["time_limit"] = 1e6
        w2["clock"] = dict(world.get("clock") or {}, expire_at_read=j)
        S = execute(w2)
        execs += 1
        bump("stops.integration.deadline")
        nxt = [i for i in limit_reads if i >= j]
        ctx = dict(ctx0, j=j)
        if not nxt:
            if S.result is None or S.status != R.status or _res_bytes(S.result) != _res_bytes(R.result):
                viol.append(V(ID, "late-deadline", "deadline after the last limit check changed the integration run (%s vs %s)" % (S.outcome, R.outcome), sub, ctx))
            continue
        # integrations the reference had completed at the stop moment (sampled at that very read)
        p = R.clock.probed[nxt[0]] if nxt[0] < len(R.clock.probed) else None
        if p is None or not (0 <= p < len(segs)):
            bump("integration.no_progress_sample")
            continue
        ctx["t"] = p
        bump("nontrivial")
        keys.append("%s:ij%d" % (rdig, j))
        vs = check_state(S, p, sub, ctx, {"TimeLimit"})
        if not vs and p in byk and byk[p].result is not None and S.result.d.tobytes() != byk[p].result.d.tobytes():
            vs.append(V(ID, "result", "returned d differs from the run limited to %d iterations" % p, sub, ctx))
        viol += vs
    sample = small_sample(world, {"reference": {"integrations": L, "outcome": R.outcome, "clock_reads": len(reads)}})
    return {"violations": viol, "stats": stats, "keys": keys, "executions": execs, "sample": sample}


def case(world):
    if world.get("solver") == "integration":
        return _integration_case(world)
    only = (world.get("case") or {}).get("only")
    maxn = (world.get("case") or {}).get("max_points", 40)
    pseed = (world.get("case") or {}).get("pts_seed", 0)
    stats = {}
    viol = []
    keys = []

    def bump(k, n=1):
        stats[k] = stats.get(k, 0) + n

    R = execute(world)
    seam_violations(R, ID)
    execs = 1
    vsec = 0.0
    TR = len(R.trials)
    bump("ref." + R.outcome.split("@")[0])
    if TR == 0 or (TR and R.trials[-1].exc is not None and TR == 1):
        return {"violations": [], "stats": stats, "keys": [], "executions": 1, "sample": None}
    racc = chain_accept(R)
    if any((not t.accepted) and same_point(t.out, t.inp) for t in R.trials):
        bump("reference.with_failed_trials")
    rt = R.ref_transform()
    rdig = R.traj_digest()
    ctx0 = {"knobs": knob_key(world)}
    natural_end = R.result is not None and not (R.status == "IterationLimit")
    cap = world["params"]["iteration_limit"]

    # ---- iteration budgets
    ks, full_k = _points(range(0, TR + 2), maxn, pseed, must=(0, 1, TR - 1, TR, TR + 1))
    for k in ks:
        if only is not None and only != {"k": k}:
            continue
        if k > cap:
            continue
        sub = {"k": k}
        S = execute(dict(world, params=dict(world["params"], iteration_limit=k)))
        execs += 1
        bump("stops.iter")
        ctx = dict(ctx0, t=k)
        if k < TR:
            if TR >= 2:
                bump("nontrivial")
                keys.append("%s:k%d" % (rdig[:12], k))
            viol += _compare_prefix(R, S, k, racc, rt, sub, ctx, False, {"IterationLimit"})
        else:
            # budget not binding (k > TR) or binding exactly at the natural end (k == TR)
            sk = [t.key() if t.exc is None else t.exc for t in S.trials]
            rk = [t.key() if t.exc is None else t.exc for t in R.trials]
            if sk != rk:
                viol.append(V(ID, "prefix", "run with non-binding budget %d differs from the reference" % k, sub, ctx))
            elif R.result is None:
                if S.outcome != R.outcome:
                    viol.append(V(ID, "status", "reference raised %s, run with budget %d ended %s" % (R.outcome, k, S.outcome), sub, ctx))
            else:
                exp = "IterationLimit" if k == TR else R.status
                if S.result is None or S.status != exp:
                    viol.append(V(ID, "status", "budget %d (reference length %d): ended %s, expected %s" % (k, TR, S.outcome, exp), sub, ctx))
                elif S.result.x.tobytes() != R.result.x.tobytes() or S.result.y.tobytes() != R.result.y.tobytes() or S.result.d.tobytes() != R.result.d.tobytes():
                    viol.append(V(ID, "result", "budget %d: result differs from the reference's final point" % k, sub, ctx))

    # ---- deadlines
    reads = R.clock.reads
    starts = [i for i, (w, _) in enumerate(reads) if is_timer_start(w)]
    # positions of the deadline: every read after the solver's timer was started (a deadline
    # that passes before the timer starts is a clock jump, not an expiry).  Should the code not
    # read the clock when its timer starts, every read of the solve is a position.
    start = starts[0] if starts else -1
    limit_reads = [i for i, (w, _) in enumerate(reads) if is_timer_limit_read(w)]
    if not limit_reads:
        # the reference never looked at its deadline (or does so through a reader this harness does not
        # recognise).  Positions cannot be enumerated then; what can still be decided: a deadline that
        # has passed right after the start must stop the solve with TimeLimit.  (A batch in which no
        # position was enumerated at all fails its reach gate, i.e. is a harness failure, not a pass.)
        bump("deadline.no_limit_read_in_reference")
        w2 = copy.deepcopy(world)
        w2["params"]["time_limit"] = 1e6
        w2["clock"] = dict(world.get("clock") or {}, expire_at_read=start + 1)
        S = execute(w2)
        execs += 1
        if TR >= 2 and not (S.result is not None and S.status == "TimeLimit"):
            viol.append(V(ID, "deadline-ignored", "the deadline had passed right after the start, the solve still ended %s after %d trials" % (S.outcome, len(S.trials)), {"j": start + 1}, dict(ctx0, j=start + 1)))
        sample = small_sample(world, {"reference": {"trials": TR, "outcome": R.outcome, "clock_reads": len(reads)}})
        return {"violations": viol, "stats": stats, "keys": keys, "executions": execs, "sample": sample, "virtual_seconds": vsec}
    inner = set()
    for t in R.trials:
        for i in limit_reads:
            if t.reads_before <= i < t.reads_after:
                inner.add(i)
    js, full_j = _points(range(start + 1, len(reads) + 1), maxn, pseed + 1, must=tuple(sorted(inner))[:8] + (start + 1, len(reads)))
    for j in js:
        if only is not None and only != {"j": j}:
            continue
        sub = {"j": j}
        w2 = copy.deepcopy(world)
        w2["params"]["time_limit"] = 1e6  # far above anything the plan accumulates, far below the expiry jump
        w2["clock"] = dict(world.get("clock") or {}, expire_at_read=j)
        S = execute(w2)
        execs += 1
        vsec += 1e9 if S.clock.n > j else 0.0
        bump("stops.deadline")
        nxt = [i for i in limit_reads if i >= j]
        ctx = dict(ctx0, j=j)
        if not nxt:
            # the solver never looks at its deadline again: identical to the reference
            if S.traj_digest() != rdig:
                viol.append(V(ID, "late-deadline", "deadline after the last limit check changed the run (%s vs %s)" % (S.outcome, R.outcome), sub, ctx))
            continue
        rstar = nxt[0]
        p = sum(1 for t in R.trials if t.reads_after <= rstar and t.exc is None)
        is_inner = rstar in inner
        if is_inner:
            bump("stops.deadline.inner")
        if TR >= 2:
            bump("nontrivial")
            keys.append("%s:j%d" % (rdig[:12], j))
        if world["params"].get("display_interval", 0.1) < 1e17:
            bump("stops.deadline.with_display_rows")
        ctx["t"] = p
        # documented precedence: the iteration-limit test comes first, so a stop that coincides with the end of
        # the budget is reported as IterationLimit
        if is_inner:
            exp = {"TimeLimit"} if p + 1 < cap else {"IterationLimit"}
        else:
            exp = {"TimeLimit"} if p < cap else {"IterationLimit"}
        vs = _compare_prefix(R, S, p, racc, rt, sub, ctx, is_inner, exp)
        if is_inner and not vs and len(S.trials) != p + 1:
            vs.append(V(ID, "aborted-trial", "deadline inside the Newton loop of trial %d but the trial is not logged as aborted" % p, sub, ctx))
        viol += vs
    # ---- the deadline position "already expired when the solve starts": time_limit = 0
    if only is None or only == {"tl0": True}:
        w0 = copy.deepcopy(world)
        w0["params"]["time_limit"] = 0.0
        w0["clock"] = {"steps": [], "tail": 0.0}
        S0 = execute(w0)
        execs += 1
        bump("stops.deadline.at_start")
        if TR >= 1 and R.trials[0].exc is None:
            viol += _compare_prefix(R, S0, 0, racc, rt, {"tl0": True}, dict(ctx0, t=0), False, {"TimeLimit"} if cap > 0 else {"IterationLimit"})
    # ---- the same limits on the *re-used* solver object (solver.params.iteration_limit = k; solve again)
    fresh = {}
    for k in [k for k in ks if 0 < k < TR and k <= cap][:1] + [k for k in ks if TR // 2 <= k < TR and k <= cap][:1]:
        sub = {"reuse_k": k}
        if only is not None and only != sub:
            continue
        if k not in fresh:
            fresh[k] = execute(dict(world, params=dict(world["params"], iteration_limit=k))).traj_digest()
            execs += 1
        old_lim = R.solver.params.iteration_limit
        R.solver.params.iteration_limit = k
        try:
            S2 = execute(dict(world, params=dict(world["params"], iteration_limit=k)), solver=R.solver)
        finally:
            R.solver.params.iteration_limit = old_lim
        execs += 1
        bump("stops.iter.reused_solver")
        if S2.traj_digest() != fresh[k]:
            viol.append(V(ID, "reused-solver", "limiting the re-used solver object to %d iterations ends %s after %d trials and differs from the same limit on a fresh solver" % (k, S2.outcome, len(S2.trials)), sub, dict(ctx0, t=k)))
    sample = small_sample(world, {"reference": {"trials": TR, "outcome": R.outcome, "clock_reads": len(reads), "inner_limit_reads": len(inner)}, "stops": {"k": ks[:6], "j": js[:6]}})
    if full_k and full_j:
        bump("worlds.fully_enumerated")
    return {"violations": viol, "stats": stats, "keys": keys, "executions": execs, "sample": sample, "virtual_seconds": vsec}
