"""C01 -- Optimal status implies first-order optimality of the user's own problem."""
import copy

import numpy as np

from .. import gen
from ..model import kkt_violations, weights_of
from ..runner import execute
from .common import V, chain_accept, knob_key, seam_violations, small_sample

ID = "C01"
LEVEL = "exploration"
RULE = (
    "world = generated problem (qp / nlp / degenerate / domain families, every mix of free, one-sided, boxed and fixed variables and of "
    "equality, one-sided and ranged rows) x full supported configuration swarm incl. every scaling type (Custom with objective weight, "
    "Nominal, GradJac, KKT), both solvers (homotopy; flow integration with default-like parameters), randomised virtual clock and "
    "observers; every run ending Optimal is judged by the dense user-space KKT oracle; a run is non-trivial when it ended Optimal after "
    ">= 1 accepted step and has an active bound, an inequality/ranged row or a non-trivial scaling; distinct = distinct trajectory/result digests"
)
ASSUMPTIONS = [
    "tolerances: opt_tol times the exact power-of-two scale factor of the respective quantity, times (1 + 1e-6), plus 64 eps of the magnitudes added (rounding of the oracle's own evaluation); the 1e-6 covers the integration solver's event localisation",
    "analytic problem families with n <= 8, m <= 4",
]
TIERS = {"quick": {"worlds": 2000, "wall": 160, "limit": 60.0}, "thorough": {"worlds": 40000, "wall": 1700, "limit": 300.0}}
GATES = ("optimal.homotopy", "optimal.integration", "nontrivial", "optimal.scaled", "optimal.active_bound", "optimal.inequality_row")


def generate(rng, seed, index, tier):
    fam = str(rng.choice(["qp", "nlp", "degenerate", "domain"], p=[0.45, 0.4, 0.08, 0.07]))
    integ = rng.random() < 0.2
    if integ and fam in ("degenerate", "domain"):
        # the BDF integration of the flow-integration solver can run (practically) forever on rank-deficient
        # problems; that is not the subject of C01, so those families go to the homotopy solver only
        fam = "qp"
    spec, x0, y0 = gen.gen_problem(rng, fam)
    if not integ:
        x0 = gen.magnify(rng, spec, x0, p=0.25)
    if integ:
        kw = {"iteration_limit": 200}
        if rng.random() < 0.3:
            kw["scaling_type"] = "Custom"
            kw["scaling"] = {"var": rng.integers(-2, 3, size=spec["n"]).tolist(), "cons": rng.integers(-2, 3, size=spec["m"]).tolist(), "obj": int(rng.integers(-1, 2))}
        return gen.base_world(seed, ID, index, spec, x0, y0, kw, clock=gen.gen_clock(rng, n=500), obs=gen.silent_obs(), solver="integration")
    kw = gen.gen_params(rng, spec, x0, y0, p_knob=0.5, reporting=True, numeric=0.2)
    kw["iteration_limit"] = int(rng.choice([150, 400]))
    if rng.random() < 0.2:
        kw["opt_tol"] = float(rng.choice([1e-4, 1e-8]))
    kw["display_interval"] = float(rng.choice([0.1, 1e18]))
    return gen.base_world(seed, ID, index, spec, x0, y0, kw, clock=gen.gen_clock(rng, n=500), obs=gen.gen_obs(rng))


def kkt_check(ex, prop, sub=None, ctx=None):
    um = ex.problem.um
    wv, wc, wo = weights_of(ex.solver.transform.scaling, um.n, um.m)
    r = ex.result
    bad = kkt_violations(um, r.x, r.y, r.d, ex.params.opt_tol, ex.params.active_tol, wv, wc, wo)
    return [V(prop, "kkt-" + b[0], "status Optimal but " + b[1], sub, ctx) for b in bad[:2]]


def case(world):
    stats = {}

    def bump(k, n=1):
        stats[k] = stats.get(k, 0) + n

    ex = execute(world)
    seam_violations(ex, ID)
    kind = world.get("solver", "homotopy")
    bump(kind + "." + ex.outcome.split("@")[0])
    viol, keys = [], []
    if ex.result is not None and ex.status == "Optimal":
        bump("optimal." + kind)
        ctx = {"knobs": knob_key(world), "solver": kind}
        viol = kkt_check(ex, ID, None, ctx)
        um = ex.problem.um
        r = ex.result
        sc = world["params"].get("scaling_type", "NoScaling") != "NoScaling"
        ab = bool(((r.x == um.xl) | (r.x == um.xu)).any())
        ineq = bool((um.cl != um.cu).any())
        moved = r.num_accepted_steps >= 1 if kind == "homotopy" else r.iterations >= 1
        if sc:
            bump("optimal.scaled")
        if ab:
            bump("optimal.active_bound")
        if ineq:
            bump("optimal.inequality_row")
        if moved and (sc or ab or ineq):
            bump("nontrivial")
            keys.append(ex.traj_digest()[:16] if kind == "homotopy" else "int:" + r.x.tobytes().hex()[:16])
    sample = small_sample(world, {"outcome": ex.outcome})
    return {"violations": viol, "stats": stats, "keys": keys, "executions": 1, "sample": sample, "virtual_seconds": ex.clock.t - ex.clock.t0}
