"""Helpers shared by the property modules."""
import copy

import numpy as np

from ..util import hx


def V(prop, clause, detail, sub=None, ctx=None, sig_extra=None):
    sig = "%s/%s" % (prop, clause)
    if sig_extra:
        sig += "/" + sig_extra
    return {"clause": clause, "sig": sig, "detail": str(detail)[:400], "sub": sub, "ctx": ctx or {}}


def same_point(a, b):
    """Same iterate *by value* (x and y bytes).  The properties speak of the iterate being
    unchanged, not of object identity: an implementation that hands back an equal copy holds them."""
    return a is b or (a.x.tobytes() == b.x.tobytes() and a.y.tobytes() == b.y.tobytes())


def chain_accept(ex):
    """Per trial: was the step finally accepted (after the penalty veto)?
    Derived from the observable chain (next trial starts from this trial's
    output), with the recorded penalty verdict for the last trial."""
    T = ex.trials
    acc = []
    for t, tr in enumerate(T):
        if tr.exc is not None or not tr.accepted:
            acc.append(False)
            continue
        if t + 1 < len(T):
            acc.append(same_point(T[t + 1].inp, tr.out))
        else:
            fa = tr.final_accept()
            acc.append(bool(fa) if fa is not None else True)
    return acc


def iterate_after(ex, p, acc=None):
    """The solver's iterate after p trials of execution ex."""
    acc = acc if acc is not None else chain_accept(ex)
    if not ex.trials:
        return None
    cur = ex.trials[0].inp
    for t in range(min(p, len(ex.trials))):
        if acc[t]:
            cur = ex.trials[t].out
    return cur


def with_params(world, **kw):
    w = copy.deepcopy(world)
    w["params"].update(kw)
    return w


def knob_key(world):
    p = world.get("params", {})
    keys = ("newton_type", "step_solver_type", "linear_solver_type", "step_control_type", "penalty_update", "active_set_type", "scaling_type")
    return "|".join("%s" % p.get(k, "-") for k in keys) + "|" + world["problem"].get("family", "?")


def nondefault_knobs(world):
    p = world.get("params", {})
    keys = ("newton_type", "step_solver_type", "linear_solver_type", "step_control_type", "penalty_update", "active_set_type", "scaling_type")
    return sum(1 for k in keys if k in p)


def finite_result(r):
    return bool(np.isfinite(r.x).all() and np.isfinite(r.y).all() and np.isfinite(r.d).all())


def small_sample(world, extra=None):
    p = world["problem"]
    s = {
        "seed": world.get("seed"),
        "index": world.get("index"),
        "family": p.get("family"),
        "n": p["n"],
        "m": p["m"],
        "xl": p["xl"],
        "xu": p["xu"],
        "cl": p["cl"],
        "cu": p["cu"],
        "x0": world["x0"],
        "params": world.get("params"),
        "obs": world.get("obs"),
        "faults": world.get("faults"),
        "clock": {"t0": (world.get("clock") or {}).get("t0"), "tail": (world.get("clock") or {}).get("tail"), "first_steps": ((world.get("clock") or {}).get("steps") or [])[:12], "expire_at_read": (world.get("clock") or {}).get("expire_at_read")},
    }
    if extra:
        s.update(extra)
    return s


def traj_key(ex):
    return ex.traj_digest()[:16]


def seam_violations(ex, prop):
    """Lost seams are harness failures (raise), never passes."""
    if ex.world.get("solver", "homotopy") != "homotopy":
        return
    if ex.clock.n < 1 and ex.result is not None:
        raise RuntimeError("clock seam lost: %d clock reads in a completed solve" % ex.clock.n)
    if ex.result is not None and ex.result.iterations > 0 and not ex.trials:
        raise RuntimeError("trial-log seam lost: iterations=%d but no _compute_step call seen" % ex.result.iterations)
    if ex.result is not None and ex.result.iterations > 0 and ex.problem.total["grad"] == 0:
        raise RuntimeError("problem device seam lost: no gradient evaluation recorded")
