"""C12 -- counters, callbacks and the recorded path tell one consistent story."""
from .. import gen
from ..monitors import check_C12
from ._monitored import run_case

ID = "C12"
LEVEL = "exploration"
RULE = (
    "world = generated problem x configuration swarm with all six penalty policies (filter policies veto steps after the controller "
    "accepted them), collect_path in most worlds, stops by iteration limit, by a virtual deadline, and injected step failures; the "
    "recorded trial log, the ComputedStep callbacks and the SolverResult (iterations, accepted steps, x/y/d, path, model_times, "
    "dist_factor) are cross-checked; a run is non-trivial when it has >= 2 trials of which at least one was rejected, failed or "
    "vetoed and one accepted; distinct = distinct trajectory digests"
)
ASSUMPTIONS = [
    "the truth about 'finally accepted' is the verdict returned by the live penalty strategy's update(), recorded by wrapping that bound method",
    "model time increments are compared with the step size used up to 64 eps of the magnitudes added (one floating-point addition)",
]
TIERS = {"quick": {"worlds": 1500, "wall": 150, "limit": 90.0}, "thorough": {"worlds": 15000, "wall": 1700, "limit": 200.0}}
GATES = ("nontrivial", "runs.with_veto", "runs.with_path", "runs.time_limited", "fired.total", "foreign.pairs")


def _standstill_world(rng, seed, index):
    """Accepted steps of exactly zero length: the variables are huge (2^36 .. 2^44, exact powers of two), the gradient
    at the start is O(1) and the first step sizes are tiny (lamb_init 1e6 .. 1e11), so x - dx rounds back to x.  Such
    steps are accepted, counted and announced like any other; the path must show them as (identical) columns and the
    model time must advance by their dt.  No rows (the multipliers would move), no scaling surprises."""
    import numpy as np

    n = int(rng.integers(1, 4))
    M = np.round(rng.normal(size=(n, n)), 2)
    Q = np.round(M @ M.T + 0.5 * np.eye(n), 4) if rng.random() < 0.7 else np.zeros((n, n))
    s = np.ldexp(rng.choice([-1.0, 1.0], size=n), rng.integers(36, 45, size=n))
    g = np.round(rng.normal(size=n), 2) + 0.25
    q = g - Q @ s
    xl = np.full(n, -gen.INF)
    xu = np.full(n, gen.INF)
    for j in range(n):
        t = int(rng.integers(0, 3))
        if t == 1:
            xl[j] = 0.0 if s[j] > 0 else s[j] * 2
        elif t == 2:
            xu[j] = s[j] * 2 if s[j] > 0 else 0.0
    spec = dict(family="standstill", n=n, m=0, Q=Q, q=q, a=np.zeros(n), A=np.zeros((0, n)), B=np.zeros((0, n)), b=np.zeros(0), xl=xl, xu=xu, cl=np.zeros(0), cu=np.zeros(0), dom=None, expo=None, policy="fresh", fmt=str(rng.choice(["coo", "csr", "csc"])))
    kw = {"collect_path": True, "obj_lower_limit": -1e300, "lamb_init": float(rng.choice([1e6, 1e9, 1e11])), "iteration_limit": int(rng.choice([7, 30, 120])), "display_interval": 1e18}
    if rng.random() < 0.5:
        kw["step_control_type"] = str(rng.choice(["ResiduumRatio", "DistanceRatio", "Fixed", "Exact"]))
    if rng.random() < 0.3:
        kw["penalty_update"] = str(rng.choice(["ObjectiveFilter", "LagrangianFilter", "DualNorm"]))
    return gen.base_world(seed, ID, index, spec, s.copy(), np.zeros(0), kw, obs=gen.gen_obs(rng), case={"resolve": False, "faulted": False, "pts_seed": 0, "foreign": False})


def generate(rng, seed, index, tier):
    if rng.random() < 0.04:
        return _standstill_world(rng, seed, index)
    fam = str(rng.choice(["qp", "nlp", "degenerate", "domain", "infeasible", "unbounded"], p=[0.3, 0.3, 0.1, 0.1, 0.1, 0.1]))
    spec, x0, y0 = gen.gen_problem(rng, fam)
    x0, y0, sform = gen.start_forms(rng, spec, x0, y0, p=0.1)
    kw = gen.gen_params(rng, spec, x0, y0, p_knob=0.5, reporting=False, numeric=0.3)
    if rng.random() < 0.35:
        kw["penalty_update"] = str(rng.choice(["ObjectiveFilter", "LagrangianFilter"]))
    if rng.random() < 0.7:
        kw["collect_path"] = True
    if rng.random() < 0.12:
        # controllers without a step-size floor of their own, with the floor raised into the range they visit
        kw["step_control_type"] = str(rng.choice(["Exact", "Fixed"]))
        kw["lamb_min"] = float(rng.choice([0.5, 0.05]))
        kw["lamb_init"] = float(rng.choice([4.0, 1.0, 0.01]))
        kw["collect_path"] = True
    kw["iteration_limit"] = int(rng.choice([0, 1, 2, 7, 30, 120], p=[0.03, 0.05, 0.07, 0.25, 0.4, 0.2]))
    clock = gen.gen_clock(rng, n=800)
    if rng.random() < 0.3:
        kw["time_limit"] = float(rng.choice([0.05, 0.5, 3.0]))
    kw["display_interval"] = float(rng.choice([0.0, 0.1, 1e18]))
    return gen.base_world(seed, ID, index, spec, x0, y0, kw, clock=clock, obs=gen.gen_obs(rng), case={"resolve": bool(rng.random() < 0.2), "faulted": bool(rng.random() < 0.4), "pts_seed": int(rng.integers(0, 2**31)), "foreign": bool(rng.random() < 0.12)}, start_form=sform)


def _nontrivial(ex, bump):
    T = ex.trials
    veto = any(t.accepted and t.penalty is not None and not t.penalty[1] for t in T)
    if veto:
        bump("runs.with_veto")
    if ex.result is not None and ex.result.path is not None:
        bump("runs.with_path")
    if ex.status == "TimeLimit":
        bump("runs.time_limited")
    if any(t.accepted and t.out is not None and t.inp.x.tobytes() == t.out.x.tobytes() and t.inp.y.tobytes() == t.out.y.tobytes() for t in T):
        bump("runs.with_zero_length_accepted_step")
    nt = len(T) >= 2 and any(t.accepted for t in T) and (veto or any(not t.accepted for t in T))
    if nt:
        bump("nontrivial")
    return nt


def case(world):
    return run_case(world, ID, check_C12, nontrivial_fn=_nontrivial)
