"""C05 -- user functions are only evaluated inside the variable bounds."""
from .. import gen
from ..monitors import check_C05
from ._monitored import run_case

ID = "C05"
LEVEL = "exploration"
RULE = (
    "world = generated problem with bounds of every kind (bounds active at the solution, starts on the boundary, fixed variables; the "
    "'domain' family is non-finite outside its box) x configuration swarm over all Newton variants, active-set rules, scalings with "
    "non-zero weights, derivative checking, displayed rows and a callback that reads cached quantities; fault-free and fault-injected "
    "executions (rejected and failed trials are where out-of-box points would come from); the device checks the argument of every "
    "callback call; a run is non-trivial when it made >= 1 trial on a problem with at least one finite bound; distinct = distinct trajectory digests"
)
ASSUMPTIONS = [
    "exempt call sites are identified by function name on the stack: deriv_check / _deriv_check (opt-in derivative check) and create_scaling (evaluation at the user-supplied scaling point)",
]
TIERS = {"quick": {"worlds": 2000, "wall": 150, "limit": 90.0}, "thorough": {"worlds": 40000, "wall": 1700, "limit": 200.0}}
GATES = ("nontrivial", "runs.globalized", "runs.deriv_check", "runs.scaled", "fired.total", "evals.checked")


def _stiff_row_world(rng, seed, index):
    """A small convex QP with boxed and free variables that are coupled through the Hessian, and one equality row
    between free variables whose coefficients are astronomically large (1e100 .. 1e200, finite): J^T(rho c + y)
    overflows, the right-hand side of the Newton system is not finite and a direct solver answers inf - inf."""
    import numpy as np

    n = int(rng.integers(3, 6))
    M = np.round(rng.normal(size=(n, n)), 2)
    Q = np.round(M @ M.T + np.eye(n), 4)
    q = np.round(rng.normal(size=n), 2)
    xl, xu = np.full(n, -gen.INF), np.full(n, gen.INF)
    nb = int(rng.integers(1, n - 1))
    for j in range(nb):
        xl[j], xu[j] = 0.0, float(rng.choice([1.0, 2.5]))
    s = float(rng.choice([1e100, 1e160, 1e200]))
    A = np.zeros((1, n))
    A[0, nb] = s
    A[0, nb + 1] = -s
    spec = dict(family="stiff-row", n=n, m=1, Q=Q, q=q, a=np.zeros(n), A=A, B=np.zeros((1, n)), b=np.array([s]), xl=xl, xu=xu, cl=np.zeros(1), cu=np.zeros(1), dom=None, expo=None, policy="fresh", fmt=str(rng.choice(["coo", "csr", "csc"])))
    x0 = np.clip(np.round(rng.normal(size=n), 2), xl, xu)
    kw = {"iteration_limit": int(rng.choice([10, 40])), "display_interval": 1e18}
    if rng.random() < 0.5:
        kw["step_solver_type"] = str(rng.choice(["Symmetric", "Extended", "Standard", "Asymmetric"]))
    return gen.base_world(seed, ID, index, spec, x0, np.zeros(1), kw, obs=gen.gen_obs(rng), case={"faulted": False, "pts_seed": 0})


def _astronomic_world(rng, seed, index):
    """Everything lives at |x| ~ 1e20: finite bounds of that size (the solver's "infinity" conventions start
    around there) and a linear term that drives the first steps right up to them."""
    import numpy as np

    n = int(rng.integers(2, 5))
    M = np.round(rng.normal(size=(n, n)), 2)
    Q = np.round(M @ M.T + np.eye(n), 4)
    q = np.round(rng.normal(size=n) * 2, 2) * 1e20
    xl = -np.array([float(rng.choice([1e20, 3e20])) for _ in range(n)])
    xu = np.array([float(rng.choice([1e20, 3e20])) for _ in range(n)])
    spec = dict(family="astronomic", n=n, m=0, Q=Q, q=q, a=np.zeros(n), A=np.zeros((0, n)), B=np.zeros((0, n)), b=np.zeros(0), xl=xl, xu=xu, cl=np.zeros(0), cu=np.zeros(0), dom=None, expo=None, policy="fresh", fmt=str(rng.choice(["coo", "csr", "csc"])))
    kw = {"iteration_limit": int(rng.choice([10, 30])), "display_interval": 1e18}
    if rng.random() < 0.5:
        kw["newton_type"] = str(rng.choice(["Simplified", "Full", "ActiveSet"]))
    return gen.base_world(seed, ID, index, spec, np.zeros(n), np.zeros(0), kw, obs=gen.gen_obs(rng), case={"faulted": False, "pts_seed": 0})


def generate(rng, seed, index, tier):
    u0 = rng.random()
    if u0 < 0.03:
        return _stiff_row_world(rng, seed, index)
    if u0 < 0.05:
        return _astronomic_world(rng, seed, index)
    fam = str(rng.choice(["qp", "nlp", "degenerate", "domain", "infeasible", "saddle"], p=[0.25, 0.25, 0.05, 0.25, 0.05, 0.15]))
    spec, x0, y0 = gen.gen_problem(rng, fam, fixed_prob=0.4)
    x0 = gen.magnify(rng, spec, x0, p=0.1)
    if spec["m"] and rng.random() < 0.04:
        # one row with astronomically large (finite) coefficients: products with it overflow, linear solves may
        # come back non-finite - whatever happens, the user's functions are still only asked inside the box
        import numpy as np

        i = int(rng.integers(0, spec["m"]))
        k = int(rng.choice([340, 500, 660]))
        for key in ("A", "B"):
            M = np.array(spec[key], float)
            M[i] = np.ldexp(M[i], k)
            spec[key] = M
        for key in ("b", "cl", "cu"):
            v = np.array(spec[key], float)
            v[i] = np.ldexp(v[i], k) if np.isfinite(np.ldexp(v[i], k)) else v[i]
            spec[key] = v
        spec["extreme_row"] = True
    if fam in ("qp", "nlp", "saddle") and rng.random() < 0.1:
        x0 = gen.integer_bounds(rng, spec, x0)
    x0, y0, sform = gen.start_forms(rng, spec, x0, y0, p=0.12)
    kw = gen.gen_params(rng, spec, x0, y0, p_knob=0.5, reporting=False, numeric=0.2)
    if rng.random() < 0.25:
        kw["newton_type"] = "Globalized"
    if rng.random() < 0.3:
        kw["lamb_init"] = float(rng.choice([1e-4, 1e-2, 0.1]))
    if rng.random() < 0.2:
        kw["deriv_check"] = str(rng.choice(["CheckFirst", "CheckSecond", "CheckAll"]))
    kw["iteration_limit"] = int(rng.choice([10, 40, 150], p=[0.3, 0.5, 0.2]))
    kw["display_interval"] = float(rng.choice([0.0, 0.1, 1e18]))
    return gen.base_world(seed, ID, index, spec, x0, y0, kw, clock=gen.gen_clock(rng, n=600), obs=gen.gen_obs(rng), case={"faulted": bool(rng.random() < 0.4), "pts_seed": int(rng.integers(0, 2**31))}, start_form=sform)


def _nontrivial(ex, bump):
    import numpy as np

    um = ex.problem.um
    bump("evals.checked", len(ex.problem.calls))
    if ex.params.newton_type.name == "Globalized":
        bump("runs.globalized")
    if ex.params.deriv_check.name != "NoCheck":
        bump("runs.deriv_check")
    if ex.solver is not None and getattr(ex.solver, "transform", None) is not None and ex.solver.transform.scaling is not None:
        bump("runs.scaled")
    nt = len(ex.trials) >= 1 and bool(np.isfinite(um.xl).any() or np.isfinite(um.xu).any())
    if nt:
        bump("nontrivial")
    return nt


def case(world):
    return run_case(world, ID, check_C05, nontrivial_fn=_nontrivial)
