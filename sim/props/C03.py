"""C03 -- well-posed convex programs are actually solved (bounded liveness, no faults)."""
import numpy as np

from .. import gen
from ..runner import execute
from .C01 import kkt_check
from .common import V, seam_violations, small_sample

ID = "C03"
LEVEL = "exploration"
RULE = (
    "world = strictly convex QP from a conservative sub-class of the stated class (eigenvalues of Q in [0.5, 20] / diagonally dominant "
    "banded, sigma_min(A on non-fixed columns) >= 0.2, ||A|| <= 10, a point strictly inside every inequality and non-fixed bound by "
    ">= 0.1, any mix of free/bounded/fixed variables and equality/one-sided/ranged rows; dense n <= 8 and banded n in {50, 200}) x one of "
    "the seven default-like configurations (defaults; Newton type Full / ActiveSet; step solver Standard / Extended / Asymmetric; exact "
    "step control), iteration budget 5000, fault-free, constant clock; must end Optimal; every world is non-trivial; distinct = distinct "
    "(configuration, trajectory digest)"
)
ASSUMPTIONS = [
    "the generator is a strict subset of the class the property states, so a failure is never the generator's fault",
    "weakest fit for the technique (no schedule or fault in the property): claimed as bounded liveness of whole fault-free executions",
]
TIERS = {"quick": {"worlds": 2000, "wall": 160, "limit": 120.0}, "thorough": {"worlds": 30000, "wall": 1700, "limit": 400.0}}
GATES = ("restarts", "nontrivial", "banded", "cfg.default", "cfg.newton_type", "cfg.step_solver_type", "cfg.step_control_type")
CFG = [{}, {"newton_type": "Full"}, {"newton_type": "ActiveSet"}, {"step_solver_type": "Standard"}, {"step_solver_type": "Extended"}, {"step_solver_type": "Asymmetric"}, {"step_control_type": "Exact"}]


def generate(rng, seed, index, tier):
    banded = rng.random() < (0.06 if tier == "quick" else 0.1)
    n = int(rng.choice([50, 200], p=[0.7, 0.3])) if banded else None
    spec, x0, y0 = gen.gen_convex_qp(rng, n=n, banded=banded)
    kw = dict(CFG[int(rng.integers(0, len(CFG)))])
    kw["iteration_limit"] = 5000
    kw = gen.quiet_params(kw)
    restart = str(rng.choice(["fresh", "same"])) if rng.random() < 0.25 else None
    sform = None
    import numpy as _np

    if not banded and rng.random() < 0.14 and not _np.any(_np.array(spec["xl"], float) == _np.array(spec["xu"], float)):
        # (only widening of bounds: the problem stays inside the stated class; worlds with fixed variables are left alone)
        # callers that write their data with integer literals: integer-dtype bound arrays, an integer-dtype start,
        # or no start at all (the origin clipped into the box)
        import numpy as np

        xl, xu = np.array(spec["xl"], float), np.array(spec["xu"], float)
        for j in range(spec["n"]):
            if xl[j] == xu[j]:
                xl[j] = xu[j] = np.round(xl[j])
            else:
                lo = np.floor(xl[j]) if np.isfinite(xl[j]) else np.floor(min(x0[j], 0.0) - 4)
                hi = np.ceil(xu[j]) if np.isfinite(xu[j]) else np.ceil(max(x0[j], 0.0) + 4)
                xl[j], xu[j] = lo, max(hi, lo + 1)
        spec["xl"], spec["xu"] = xl, xu
        spec["int_bounds"] = True
        u_ = rng.random()
        if u_ < 0.4:
            x0 = np.clip(np.zeros(spec["n"]), xl, xu)
            sform = {"x": "none"}
        elif u_ < 0.8:
            x0 = np.clip(np.round(x0), xl, xu)
            sform = {"x": "int"}
        else:
            x0 = np.clip(x0, xl, xu)
    return gen.base_world(seed, ID, index, spec, x0, y0, kw, case={"restart": restart}, start_form=sform)


def case(world):
    stats = {}
    ex = execute(world)
    seam_violations(ex, ID)
    cfgk = [k for k in world["params"] if k not in ("iteration_limit", "display_interval")]
    stats["cfg." + (cfgk[0] if cfgk else "default")] = 1
    if "banded" in world["problem"]["family"]:
        stats["banded"] = 1
    stats["outcome." + ex.outcome.split("@")[0]] = 1
    viol = []
    ctx = {"cfg": {k: world["params"][k] for k in cfgk}, "n": world["problem"]["n"], "m": world["problem"]["m"]}
    if ex.result is None or ex.status != "Optimal":
        viol.append(V(ID, "not-solved", "a QP of the stated class ended %s after %d trials" % (ex.outcome, len(ex.trials)), None, ctx, sig_extra=ex.outcome.split(":")[0]))
    else:
        viol += [dict(v, clause="solved-but-" + v["clause"]) for v in kkt_check(ex, ID, None, ctx)]
        if (world.get("case") or {}).get("restart"):
            # the returned point is an in-bounds start like any other: solving again from it (same solver object or a
            # fresh one) must end Optimal as well
            import numpy as np

            r = ex.result
            fresh = (world.get("case") or {}).get("restart") == "fresh"
            ex2 = execute(world, x0=np.array(r.x, copy=True), y0=np.array(r.y, copy=True)) if fresh else execute(world, problem=ex.problem, solver=ex.solver, x0=np.array(r.x, copy=True), y0=np.array(r.y, copy=True))
            stats["restarts"] = 1
            if ex2.result is None or ex2.status != "Optimal":
                viol.append(V(ID, "not-solved", "a solve started from the solution just returned (%s solver) ended %s after %d trials" % ("fresh" if fresh else "same", ex2.outcome, len(ex2.trials)), {"restart": True}, ctx, sig_extra="restart:" + ex2.outcome.split(":")[0]))
    stats["nontrivial"] = 1
    return {"violations": viol, "stats": stats, "keys": [repr(ctx["cfg"]) + ex.traj_digest()[:14]], "executions": 1 + int(stats.get("restarts", 0)), "sample": small_sample(world, {"outcome": ex.outcome, "max": {"iterations_to_optimal": len(ex.trials) if ex.status == "Optimal" else 0}}), "max": {"iterations_to_optimal": len(ex.trials) if ex.status == "Optimal" else 0}}
