"""C15 -- step-size control: rejected steps shrink the step and keep the point."""
from .. import gen
from ..monitors import check_C15
from ._monitored import run_case

ID = "C15"
LEVEL = "exploration"
RULE = (
    "world = generated problem x configuration sweeping the four controllers (exact, fixed, residuum-ratio, distance-ratio), all "
    "Newton types, step/linear solvers and penalty policies, small lamb_max in some worlds (so that the abort is reached), with "
    "injected evaluation / factorisation / solve failures in half of the worlds; every pair of consecutive trials of the log is "
    "checked, and every step accepted under exact control against the reference model's implicit-Euler residual; a run is "
    "non-trivial when it contains a rejected or failed trial followed by another trial; distinct = distinct trajectory digests"
)
ASSUMPTIONS = [
    "exact-control residual: the code's active-set rule leaves components up to 1e-8 outside the box unprojected, so the fully projected residual of the model may exceed newton_tol by at most 1e-8*sqrt(n) (plus rounding)",
    "penalty-vetoed steps are not 'rejected steps': the controller has already relaxed the step size; only chaining, the cap and the box apply to them",
]
TIERS = {"quick": {"worlds": 2000, "wall": 150, "limit": 90.0}, "thorough": {"worlds": 40000, "wall": 1700, "limit": 200.0}}
# ("trials.with_step_hook" is a reach probe, not a gate: the second seam hangs on the public Params.step_solver hook)
GATES = ("nontrivial", "runs.exact_accepted", "runs.hit_lamb_max", "fired.total", "runs.failed_trials")


def generate(rng, seed, index, tier):
    fam = str(rng.choice(["qp", "nlp", "degenerate", "domain", "infeasible", "unbounded", "saddle"], p=[0.25, 0.3, 0.1, 0.1, 0.1, 0.05, 0.1]))
    spec, x0, y0 = gen.gen_problem(rng, fam)
    kw = gen.gen_params(rng, spec, x0, y0, p_knob=0.5, reporting=False, numeric=0.3)
    kw["step_control_type"] = str(rng.choice(["Exact", "Fixed", "ResiduumRatio", "DistanceRatio"], p=[0.4, 0.1, 0.25, 0.25]))
    if rng.random() < 0.25:
        kw["lamb_max"] = float(rng.choice([4.0, 64.0, 1e3, 1e5]))
        kw["lamb_init"] = float(rng.choice([0.01, 1.0, 2.0]))
    if rng.random() < 0.2:
        kw["lamb_inc"] = float(rng.choice([1.5, 2.0, 10.0]))
    if rng.random() < 0.12:
        # controllers without a step-size floor of their own, with the floor raised into the range they visit
        kw["step_control_type"] = str(rng.choice(["Exact", "Fixed"], p=[0.8, 0.2]))
        kw["lamb_min"] = float(rng.choice([0.5, 0.1, 0.05]))
        kw["lamb_init"] = float(rng.choice([4.0, 1.0, 0.01]))
    kw["iteration_limit"] = int(rng.choice([5, 30, 100], p=[0.2, 0.6, 0.2]))
    kw = gen.quiet_params(kw)
    obs = {"level": "CRITICAL", "callbacks": ["reenter"]} if rng.random() < 0.1 else None
    clock = None
    if rng.random() < 0.12:
        # a deadline on a ticking clock: whatever is accepted in the iteration in which it expires is still an
        # accepted step of the controller
        kw["time_limit"] = float(rng.choice([0.5, 2.0, 6.0]))
        clock = {"t0": gen.T0, "steps": [], "tail": float(rng.choice([0.05, 0.11, 0.3]))}
    return gen.base_world(seed, ID, index, spec, x0, y0, kw, obs=obs, clock=clock, case={"resolve": bool(rng.random() < 0.15), "faulted": bool(rng.random() < 0.5), "pts_seed": int(rng.integers(0, 2**31))})


def _nontrivial(ex, bump):
    T = ex.trials
    if any(t.accepted for t in T) and ex.params.step_control_type.name == "Exact":
        bump("runs.exact_accepted")
    if ex.outcome == "deliberate:Inverse step size":
        bump("runs.hit_lamb_max")
    if any((not t.accepted) and t.out is t.inp for t in T):
        bump("runs.failed_trials")
    nt = any((not T[i].accepted) for i in range(len(T) - 1))
    if nt:
        bump("nontrivial")
    return nt


def case(world):
    return run_case(world, ID, check_C15, nontrivial_fn=_nontrivial)
