"""C16 -- the penalty parameter is positive and never decreases."""
import numpy as np

from .. import gen
from ..monitors import check_C16
from ._monitored import run_case

ID = "C16"
LEVEL = "exploration"
RULE = (
    "world = generated problem (incl. infeasible and degenerate families whose multipliers blow up) x configuration sweeping the six "
    "penalty policies, large random starting multipliers, scaling; the penalty of every trial step of the log and solver.rho as read "
    "from inside the ComputedStep callback are checked; a run is non-trivial when the penalty changed at least once or the policy is "
    "Constant with >= 2 trials; distinct = distinct (policy, trajectory digest)"
)
ASSUMPTIONS = [
    "the dual-norm bound is taken over the internal (scaled) multipliers of the iterates accepted so far, excluding the start",
]
TIERS = {"quick": {"worlds": 2000, "wall": 150, "limit": 90.0}, "thorough": {"worlds": 40000, "wall": 1700, "limit": 200.0}}
GATES = ("nontrivial", "resolved.runs", "runs.rho_changed", "policy.DualNorm", "policy.Constant", "policy.ParetoDecrease", "policy.DualEquilibration", "policy.ObjectiveFilter", "policy.LagrangianFilter")


def generate(rng, seed, index, tier):
    if rng.random() < 0.06:
        # the flow-integration solver raises its penalty on "penalty events"; same invariant per integration leg
        spec, x0, y0 = gen.gen_problem(rng, str(rng.choice(["qp", "nlp"])), mmax=3)
        if spec["m"] == 0:
            spec, x0, y0 = gen.gen_problem(rng, "qp", mmax=3)
        kw = {"iteration_limit": int(rng.choice([6, 15])), "rho": float(rng.choice([1e-2, 1.0, 1e4, 1e11, 1e13])), "display_interval": 1e18}
        return gen.base_world(seed, ID, index, spec, x0, y0, kw, solver="integration", case={})
    fam = str(rng.choice(["qp", "nlp", "degenerate", "domain", "infeasible"], p=[0.3, 0.3, 0.15, 0.05, 0.2]))
    spec, x0, y0 = gen.gen_problem(rng, fam, mmax=4)
    if spec["m"] == 0 and rng.random() < 0.8:
        spec, x0, y0 = gen.gen_problem(rng, fam, mmax=4)
    x0 = gen.magnify(rng, spec, x0, p=0.12)
    kw = gen.gen_params(rng, spec, x0, y0, p_knob=0.4, reporting=False, numeric=0.2)
    kw["penalty_update"] = str(rng.choice(["Constant", "DualNorm", "DualEquilibration", "ParetoDecrease", "ObjectiveFilter", "LagrangianFilter"], p=[0.1, 0.4, 0.15, 0.15, 0.1, 0.1]))
    if rng.random() < 0.05 and spec["m"]:
        # many small steps under a filter policy: the filter collects a long front (dozens to hundreds of entries)
        kw["penalty_update"] = str(rng.choice(["ObjectiveFilter", "LagrangianFilter"]))
        kw["step_control_type"] = "Fixed"
        kw["lamb_init"] = float(rng.choice([10.0, 100.0]))
        kw["rho"] = float(rng.choice([1.0, 2.5]))
        kw["iteration_limit"] = 300
        kw.pop("lamb_max", None)
        kw = gen.quiet_params(kw)
        return gen.base_world(seed, ID, index, spec, x0, y0, kw, case={"resolve": False, "faulted": False, "pts_seed": 0})
    if rng.random() < 0.6:
        y0 = np.round(rng.normal(size=spec["m"]) * float(rng.choice([1.0, 50.0, 1e4])), 3)
    if rng.random() < 0.5:
        kw["rho"] = float(10.0 ** int(rng.integers(-13, 2)))
    kw["iteration_limit"] = int(rng.choice([10, 40, 150], p=[0.3, 0.5, 0.2]))
    kw = gen.quiet_params(kw)
    obs = None
    if rng.random() < 0.15:
        obs = {"level": "DEBUG", "callbacks": []}
    elif rng.random() < 0.15:
        # an observer that calls the solver's public single-step API from inside the callback
        obs = {"level": "CRITICAL", "callbacks": ["reenter"]}
    return gen.base_world(seed, ID, index, spec, x0, y0, kw, obs=obs, case={"resolve": bool(rng.random() < 0.3), "faulted": bool(rng.random() < 0.25), "pts_seed": int(rng.integers(0, 2**31))})


def _nontrivial(ex, bump):
    T = ex.trials
    pol = ex.params.penalty_update.name
    bump("policy." + pol)
    changed = any(T[i + 1].rho != T[i].rho for i in range(len(T) - 1))
    if changed:
        bump("runs.rho_changed")
    nt = changed or (pol == "Constant" and len(T) >= 2)
    if nt:
        bump("nontrivial")
    return nt


def _integration_case(world):
    from ..runner import execute
    from .common import V, small_sample

    ex = execute(world)
    stats = {"integration.runs": 1, "integration.legs": len(ex.int_rhos), "integration." + ex.outcome.split("@")[0]: 1}
    viol = []
    rs = ex.int_rhos
    for t, r in enumerate(rs):
        if not r > 0.0:
            viol.append(V(ID, "positive", "integration leg %d used penalty %r" % (t, r), None, {"t": t, "policy": "integration"}))
            break
        if t > 0 and r < rs[t - 1]:
            viol.append(V(ID, "monotone", "penalty decreased from %r to %r at integration leg %d" % (rs[t - 1], r, t), None, {"t": t, "policy": "integration"}))
            break
    changed = any(rs[i + 1] != rs[i] for i in range(len(rs) - 1))
    if changed:
        stats["integration.rho_changed"] = 1
    keys = ["int:" + repr(rs)[:60]] if changed else []
    return {"violations": viol, "stats": stats, "keys": keys, "executions": 1, "sample": small_sample(world, {"outcome": ex.outcome, "leg_penalties": rs[:8]})}


def case(world):
    if world.get("solver") == "integration":
        return _integration_case(world)
    return run_case(world, ID, check_C16, key_fn=lambda ex: ex.params.penalty_update.name + ":" + ex.traj_digest()[:14], nontrivial_fn=_nontrivial)
