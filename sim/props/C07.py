"""C07 -- failures at trial points are survived and never accepted.
Fault injection at the callback device and at the linear-solver device."""
import copy

import numpy as np

from .. import gen
from ..model import kkt_violations, weights_of
from ..devices import site_has
from ..runner import execute
from .common import V, chain_accept, finite_result, knob_key, same_point, seam_violations, small_sample

ID = "C07"
LEVEL = "fault_enumeration"
RULE = (
    "base world = generated problem x configuration (fault-free reference first); then one faulted execution per position: "
    "every k-th evaluation of each of the five callbacks (nan / +inf / -inf), every k-th factorisation and every k-th solve "
    "(all positions when the reference is short, seeded sample otherwise), plus swarm worlds with 1-3 mixed faults, region-based "
    "persistent failures cutting the reference trajectory, and failures pinned to the starting point; a faulted execution is "
    "non-trivial when at least one injected fault actually fired; distinct = distinct (reference trajectory digest, fault set)"
)
ASSUMPTIONS = [
    "input validation is on (the default validate_input=True): non-finite values are detected by pygradflow's ValidatingEvaluator",
    "fault positions count evaluations made inside solve(); evaluations made by Solver.__init__ at the scaling point are construction",
    "a faulted run is not required to follow the reference trajectory after the fault, only never to return wrong data",
]
TIERS = {
    "quick": {"worlds": 260, "wall": 170, "cap": 20, "limit": 120.0, "max_points": 44},
    "thorough": {"worlds": 2000, "wall": 1700, "cap": 60, "limit": 300.0, "max_points": 160},
}
# (the scipy-level positions are reach *probes*, not gates: that layer hangs on how the wrappers look scipy up)
GATES = ("fired.eval.obj", "fired.eval.grad", "fired.eval.cons", "fired.eval.jac", "fired.eval.hess", "fired.lin.factor", "fired.lin.solve", "trials.discarded", "fired.region", "fired.x0", "fired.lin.obs_solve", "worlds.display_rows")
COMPS = ("obj", "grad", "cons", "jac", "hess")


def generate(rng, seed, index, tier):
    fam = str(rng.choice(["qp", "nlp", "degenerate", "domain", "saddle", "expo"], p=[0.3, 0.3, 0.1, 0.1, 0.1, 0.1]))
    spec, x0, y0 = gen.gen_problem(rng, fam)
    kw = gen.gen_params(rng, spec, x0, y0, p_knob=0.55, reporting=False, globalized=False, numeric=0.2)
    if rng.random() < 0.15:
        kw["newton_type"] = "Globalized"
    cap = TIERS[tier]["cap"]
    kw["iteration_limit"] = int(rng.integers(4, cap + 1))
    kw = gen.quiet_params(kw)
    if rng.random() < 0.25:
        # every row displayed: the display evaluates quantities at trial points too
        kw["display_interval"] = 0.0
    if rng.random() < 0.2:
        kw["report_rcond"] = True
    if fam == "expo" and rng.random() < 0.5:
        kw["lamb_init"] = float(rng.choice([1e-3, 1e-2]))
    clock = None
    if rng.random() < 0.2:
        # a deadline on top of the failures: the clock ticks per read, the limit lands somewhere inside the run
        kw["time_limit"] = float(rng.choice([0.5, 2.0, 6.0]))
        clock = {"t0": gen.T0, "steps": [], "tail": float(rng.choice([0.05, 0.11, 0.3]))}
    mode = str(rng.choice(["enum", "swarm", "region", "x0"], p=[0.5, 0.2, 0.2, 0.1]))
    return gen.base_world(
        seed, ID, index, spec, x0, y0, kw, clock=clock,
        case={"mode": mode, "max_points": TIERS[tier]["max_points"], "pts_seed": int(rng.integers(0, 2**31))},
    )


def _fault_sets(world, R, rng):
    mode = world["case"].get("mode", "enum")
    maxn = world["case"].get("max_points", 40)
    N = dict(R.problem.count)
    nf, ns = R.lin_counts[0], R.lin_counts[1]
    sets = []
    if mode == "enum":
        allp = []
        for c in COMPS:
            for k in range(1, N[c] + 1):
                allp.append({"dev": "eval", "comp": c, "at": k, "kind": "nan"})
        for k in range(1, nf + 1):
            allp.append({"dev": "lin", "op": "factor", "at": k})
        for k in range(1, ns + 1):
            allp.append({"dev": "lin", "op": "solve", "at": k})
        for op_, cnt_ in sorted(R.lin_inner_counts.items()):
            # the same failures one layer further down: the scipy routine itself gives up (info > 0 with a useless
            # vector, RuntimeError from the factorisation); the library's wrapper has to turn that into a failure
            for k in range(1, cnt_ + 1):
                allp.append({"dev": "lin", "op": "inner_" + op_, "at": k})
        nobs = R.lin_counts[2]
        for k in range(1, min(nobs, 40) + 1):
            # the condition estimator's own solves (report_rcond): their failure is absorbed
            # ("no estimate"), it must never escape
            allp.append({"dev": "lin", "op": "obs_solve", "at": k})
        full = len(allp) <= maxn
        if not full:
            # keep every device represented, sample the rest
            idx = rng.choice(len(allp), size=maxn, replace=False)
            allp = [allp[int(i)] for i in sorted(idx)]
        for f in allp:
            if f["dev"] == "eval":
                f["kind"] = str(rng.choice(["nan", "inf"] + (["-inf"] if f["comp"] == "obj" else [])))
                f["pos"] = int(rng.integers(0, 8))
        sets = [[f] for f in allp]
        return sets, full
    if mode == "swarm":
        for _ in range(max(4, maxn // 3)):
            fs = []
            for _ in range(int(rng.integers(1, 4))):
                if rng.random() < 0.7:
                    c = str(rng.choice(COMPS))
                    if N[c] == 0:
                        continue
                    fs.append({"dev": "eval", "comp": c, "at": int(rng.integers(1, N[c] + 1)), "kind": str(rng.choice(["nan", "inf"])), "pos": int(rng.integers(0, 8))})
                else:
                    inner = [(o_, c_) for o_, c_ in sorted(R.lin_inner_counts.items()) if c_ > 0]
                    if inner and rng.random() < 0.4:
                        o_, c_ = inner[int(rng.integers(0, len(inner)))]
                        fs.append({"dev": "lin", "op": "inner_" + o_, "at": int(rng.integers(1, c_ + 1))})
                        continue
                    op = str(rng.choice(["factor", "solve"]))
                    cnt = nf if op == "factor" else ns
                    if cnt == 0:
                        continue
                    fs.append({"dev": "lin", "op": op, "at": int(rng.integers(1, cnt + 1))})
            if fs:
                sets.append(fs)
        return sets, False
    if mode == "region":
        # half-spaces that cut the reference trajectory x0 -> final point
        rt = R.ref_transform()
        pts = [rt.user_x(it.x) for it in R.accepted_iterates()]
        if len(pts) >= 2:
            for _ in range(max(3, maxn // 6)):
                i = int(rng.integers(1, len(pts)))
                d = pts[i] - pts[0]
                if not np.any(d):
                    d = np.round(rng.normal(size=len(pts[0])), 3)
                a = np.round(d + 0.1 * rng.normal(size=d.size), 3)
                if not np.any(a):
                    continue
                # threshold strictly above the start value, at or below the i-th point's
                lo, hi = float(a @ pts[0]), float(a @ pts[i])
                if not hi > lo:
                    continue
                b = lo + (hi - lo) * float(rng.choice([0.3, 0.6, 0.9]))
                if not b > lo:
                    continue
                c = str(rng.choice(COMPS))
                sets.append([{"dev": "eval", "comp": c, "region": {"a": a.tolist(), "b": b}, "kind": "nan"}])
        return sets, False
    if mode == "x0":
        for c in COMPS:
            if c in ("cons", "jac") and world["problem"]["m"] == 0:
                continue
            sets.append([{"dev": "eval", "comp": c, "at_x0": True, "kind": str(rng.choice(["nan", "inf"]))}])
        return sets, True
    return sets, False


def _natural_reports(E, sub, ctx, bump):
    """Failures the underlying scipy routine reported by itself (non-converged GMRES/MINRES, singular LU) on the
    algorithm path: the attempt they occurred in must be discarded like any injected failure."""
    out = []
    for t, tr in enumerate(E.trials):
        if tr.inner_after is None or tr.exc is not None:
            continue
        reps = [r for r in E.lin_inner_reports[tr.inner_before : tr.inner_after] if not r[2]]
        if not reps:
            continue
        bump("trials.with_natural_solver_failure")
        if tr.accepted or not same_point(tr.out, tr.inp):
            out.append(V(ID, "not-discarded", "in trial %d the linear solver (%s) reported failure by itself, yet the attempt was %s" % (t, reps[0][0], "accepted" if tr.accepted else "kept as a rejected trial point"), sub, dict(ctx, t=t)))
            break
    return out


def _oracle(world, R, F, fset, sub, stats):
    out = []
    ctx = {"knobs": knob_key(world), "faults": [(f.get("dev"), f.get("comp", f.get("op"))) for f in fset]}

    def bump(k, n=1):
        stats[k] = stats.get(k, 0) + n

    fired_eval = F.problem.fired
    fired_lin = [f for f in F.lin_fired if f[0] != "obs_solve"]
    fired_obs = [f for f in F.lin_fired if f[0] == "obs_solve"]
    if fired_obs:
        bump("fired.lin.obs_solve", len(fired_obs))
    if not fired_eval and not fired_lin and not fired_obs:
        bump("configured_not_fired")
        return out, False
    for (idx, comp, k, arg, site) in fired_eval:
        bump("fired.eval." + comp)
        if "region" in fset[idx]:
            bump("fired.region")
        if fset[idx].get("at_x0"):
            bump("fired.x0")
        if site_has(site, "check_eval"):
            bump("fired.on_check_eval")
    for (op, k, site) in fired_lin:
        bump("fired.lin." + op)
    out += _natural_reports(F, sub, ctx, bump)

    T = F.trials
    first_nf = T[0].nfired_before if T else len(fired_eval)
    first_lin = T[0].lin_before[2] if T else len(F.lin_fired)
    pre = first_nf > 0 or first_lin > 0
    x0_persistent = any(f.get("at_x0") for f in fset)
    oc = F.outcome
    ok_outcome = oc.startswith("status:") or oc == "deliberate:Inverse step size"
    if oc == "deliberate:Line search failed" and world["params"].get("newton_type") == "Globalized":
        # the Armijo search of the globalized Newton variant gives up with its own deliberate
        # error (C06) for some step sizes, faults or not; a fault merely changes which step
        # sizes are visited.  C07 quantifies over step solvers and controllers, not Newton
        # variants, so this ending is counted, not judged -- unless a failure fired *inside the
        # very attempt that gave up*: then the failure was not answered by discarding the attempt
        # (a failed evaluation or factorisation ends the attempt at once), it was searched around.
        last = F.trials[-1] if F.trials else None
        in_last = 0
        if last is not None and last.exc is not None:
            in_last = (last.nfired_after - last.nfired_before) + len([f for f in F.lin_fired[last.lin_before[2] : last.lin_after[2]] if f[0] != "obs_solve"])
        if in_last:
            bump("ended.line_search_failed_with_failure_inside")
        else:
            bump("ended.line_search_failed")
            ok_outcome = True
    if x0_persistent:
        if oc != "deliberate:Failed to evaluate initial iterate":
            out.append(V(ID, "initial-point", "persistent failure of %s at x0 ended as %s instead of the initial-point error" % (fset[0]["comp"], oc), sub, ctx, sig_extra=oc.split(":")[0] + ":" + (F.exc_type or "") + "@" + (F.exc_func or "")))
        return out, True
    if pre and oc == "deliberate:Failed to evaluate initial iterate":
        bump("initial.error")
        return out, True
    if not ok_outcome:
        out.append(V(ID, "outcome", "faulted run ended as %s" % oc, sub, ctx, sig_extra=(F.exc_type or "?") + "@" + (F.exc_func or "?")))
        return out, True
    if pre:
        bump("initial.absorbed")

    # per trial
    for t, tr in enumerate(T):
        n_eval = tr.nfired_after - tr.nfired_before
        lin_here = [f for f in F.lin_fired[tr.lin_before[2] : tr.lin_after[2]] if f[0] != "obs_solve"]
        if n_eval == 0 and not lin_here:
            continue
        bump("trials.with_fault")
        c2 = dict(ctx, t=t)
        if tr.exc is not None:
            continue  # outcome clause already judged the run
        if tr.accepted or not same_point(tr.out, tr.inp):
            out.append(V(ID, "not-discarded", "trial %d saw an injected failure but was %s with %s iterate" % (t, "accepted" if tr.accepted else "rejected", "a new" if not same_point(tr.out, tr.inp) else "the same"), sub, c2))
            continue
        bump("trials.discarded")
        # "the step size is reduced": a strictly larger, finite inverse step size (the factor is the code's business)
        if not (tr.lamb > 1.0 / tr.dt and np.isfinite(tr.lamb)):
            out.append(V(ID, "lambda", "trial %d failed but lambda went %r -> %r (step size not reduced)" % (t, 1.0 / tr.dt, tr.lamb), sub, c2))
        if t + 1 < len(T):
            nx = T[t + 1]
            if not same_point(nx.inp, tr.inp):
                out.append(V(ID, "moved", "iterate changed after the failed trial %d" % t, sub, c2))
            if nx.dt != 1.0 / tr.lamb:
                out.append(V(ID, "lambda", "trial %d does not use the step size returned by failed trial %d" % (t + 1, t), sub, c2))
    # faults that fired after the first trial began but outside any trial window
    covered = sum(tr.nfired_after - tr.nfired_before for tr in T)
    if T and len(fired_eval) - first_nf != covered:
        bump("fired.outside_trials")

    # per run: failing points never become iterates
    rt = F.ref_transform()
    acc = chain_accept(F)
    accepted = [(t, tr.out) for t, tr in enumerate(T) if acc[t]]
    seen_args = set()
    for pos, (idx, comp, k, arg, site) in enumerate(fired_eval):
        # which trial did it fire in
        cur = None
        for tr in T:
            if tr.nfired_before <= pos < tr.nfired_after:
                cur = tr
        if cur is None or (arg, cur.t) in seen_args:
            continue
        seen_args.add((arg, cur.t))
        if rt.user_x(cur.inp.x).tobytes() == arg:
            continue  # failure while re-evaluating at the current iterate
        persistent = "region" in fset[idx]
        for (t, it) in accepted:
            # a transient failure says nothing about later, successful evaluations of the same
            # point (e.g. two trials clipped to the same bound); a persistent one does
            if (t == cur.t or (persistent and t > cur.t)) and rt.user_x(it.x).tobytes() == arg:
                out.append(V(ID, "accepted-failing-point", "the point where %s failed became the iterate of trial %d" % (comp, t), sub, dict(ctx, t=t)))
    for fl in fset:
        # geometric form for the components every accepted candidate is validated on
        # (objective, gradient, constraints, Jacobian).  A Hessian-only failing region is
        # different: the Hessian is first needed when the point already *is* the iterate, the
        # attempts from there are discarded and the run ends with the step-size error, which
        # the property allows.
        if "region" in fl and fl["comp"] in ("obj", "grad", "cons", "jac"):
            if fl["comp"] in ("cons", "jac") and F.problem.um.m == 0:
                continue
            a = np.array(fl["region"]["a"], float)
            for (t, it) in accepted:
                if float(a @ rt.user_x(it.x)) > fl["region"]["b"]:
                    out.append(V(ID, "accepted-failing-point", "iterate accepted in trial %d lies inside the failing region of %s" % (t, fl["comp"]), sub, dict(ctx, t=t)))
                    break
    if F.result is not None:
        if not finite_result(F.result):
            out.append(V(ID, "nonfinite-result", "x, y or d not finite after injected failures", sub, ctx))
        elif F.status == "Optimal":
            bump("optimal_despite_faults")
            um = F.problem.um
            wv, wc, wo = weights_of(F.solver.transform.scaling, um.n, um.m)
            bad = kkt_violations(um, F.result.x, F.result.y, F.result.d, F.params.opt_tol, F.params.active_tol, wv, wc, wo)
            # the region oracle above already covers points inside a failing region
            if bad:
                out.append(V(ID, "optimal-not-kkt", "Optimal after failures but %s: %s" % bad[0], sub, ctx, sig_extra=bad[0][0]))
    else:
        bump("ended.step_size_error")
    return out, True


def case(world):
    stats = {}
    only = (world.get("case") or {}).get("only")
    base = copy.deepcopy(world)
    base["faults"] = []
    R = execute(base)
    seam_violations(R, ID)
    execs = 1
    if world["params"].get("display_interval", 0.1) == 0.0:
        stats["worlds.display_rows"] = 1
    if world["params"].get("time_limit") is not None:
        stats["worlds.with_deadline"] = 1
    nat = sum(1 for t in R.trials if (not t.accepted) and same_point(t.out, t.inp))
    if nat:
        stats["reference.natural_failed_trials"] = nat
    oc = R.outcome
    stats["ref." + oc.split("@")[0]] = 1
    if not (oc.startswith("status:") or oc == "deliberate:Inverse step size") or not R.trials:
        return {"violations": [], "stats": stats, "keys": [], "executions": 1, "sample": None}
    rng = np.random.default_rng(world["case"].get("pts_seed", 0))
    sets, full = _fault_sets(world, R, rng)
    rdig = R.traj_digest()[:12]
    viol, keys = [], []

    def _bump(k, n=1):
        stats[k] = stats.get(k, 0) + n

    viol += _natural_reports(R, {"faults": []}, {"knobs": knob_key(world), "faults": []}, _bump)
    for fset in sets:
        sub = {"faults": fset}
        if only is not None and only != sub:
            continue
        w = copy.deepcopy(world)
        w["faults"] = fset
        F = execute(w)
        execs += 1
        vs, fired = _oracle(world, R, F, fset, sub, stats)
        viol += vs
        if fired:
            keys.append(rdig + ":" + repr(sorted((f.get("comp", f.get("op")), f.get("at", "r")) for f in fset)))
    if full:
        stats["worlds.fully_enumerated"] = 1
    sample = small_sample(world, {"reference": {"outcome": oc, "trials": len(R.trials), "evals": dict(R.problem.count), "factorisations": R.lin_counts[0], "solves": R.lin_counts[1]}, "fault_sets": sets[:5]})
    return {"violations": viol, "stats": stats, "keys": keys, "executions": execs, "sample": sample}
