"""CLI:  python -m sim.main <ID> [--tier quick|thorough] [--replay file] [--worlds N] [--wall S]"""
import argparse
import importlib
import os
import sys


def main(argv=None):
    ap = argparse.ArgumentParser()
    ap.add_argument("prop")
    ap.add_argument("--tier", default=os.environ.get("VERIF_TIER") or "quick")
    ap.add_argument("--replay")
    ap.add_argument("--worlds", type=int)
    ap.add_argument("--wall", type=float)
    ap.add_argument("--seed", type=int)
    a = ap.parse_args(argv)
    if a.prop.startswith("selftest"):
        from . import selftest

        return selftest.main(a.prop, a)
    mod = importlib.import_module("sim.props." + a.prop)
    from . import engine

    if a.replay:
        return engine.replay(mod, a.replay)
    seed = a.seed if a.seed is not None else int(os.environ.get("VERIF_SEED") or mod.TIERS[a.tier].get("seed", 20261001))
    tier = a.tier if a.tier in ("quick", "thorough") else "quick"
    return engine.check_property(mod, tier, seed, n_worlds=a.worlds, wall_budget=a.wall)


if __name__ == "__main__":
    try:
        rc = main()
    except SystemExit:
        raise
    except BaseException as e:  # harness failure: never 0, never 1
        import traceback

        traceback.print_exc()
        print("HARNESS: internal error %r" % (e,))
        rc = 3
    sys.exit(rc)
