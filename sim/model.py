"""Reference model (oracle side).  Independent dense numpy formulas written
from the problem statement / paper, never calling into pygradflow.

R-user      : UserModel   -- f, grad f, c, J, Hessian of the Lagrangian of a world's problem
R-transform : RefTransform -- power-of-two scaling + slack/offset embedding, and its inverse
R-kkt       : kkt_violations
R-flow      : flow_residual (implicit Euler residual of the projected aug. Lagrangian flow)
R-infeas    : infeas_stationarity
R-filter    : RefFilter
"""
import numpy as np

from .util import EPS


class UserModel:
    """f(x) = 1/2 x'Qx + q'x + 1/4 sum a_k x_k^4  [+ sum_j w_j * (-log(x_j - lo_j))]
    c(x) = A x + 1/2 B (x*x) - b
    """

    def __init__(self, spec):
        self.n = int(spec["n"])
        self.m = int(spec["m"])
        n, m = self.n, self.m
        self.Q = np.array(spec["Q"], dtype=float).reshape(n, n)
        self.q = np.array(spec["q"], dtype=float).reshape(n)
        self.a = np.array(spec["a"], dtype=float).reshape(n)
        self.A = np.array(spec["A"], dtype=float).reshape(m, n)
        self.B = np.array(spec["B"], dtype=float).reshape(m, n)
        self.b = np.array(spec["b"], dtype=float).reshape(m)
        self.xl = np.array(spec["xl"], dtype=float).reshape(n)
        self.xu = np.array(spec["xu"], dtype=float).reshape(n)
        self.cl = np.array(spec["cl"], dtype=float).reshape(m)
        self.cu = np.array(spec["cu"], dtype=float).reshape(m)
        ex_ = spec.get("expo")
        self.expo = None
        if ex_:
            # sum_j exp(k_j x_j - s_j): finite at the start, overflows to +inf a few units further
            # on -- a *natural* non-finite value inside the box.  Evaluated under the process-wide
            # numpy error mode, like any user callback written in plain numpy.
            self.expo = (np.array(ex_["k"], dtype=float).reshape(n), np.array(ex_["s"], dtype=float).reshape(n))
        dom = spec.get("dom")
        self.dom = None
        if dom:
            self.dom = (
                np.array(dom["w"], dtype=float).reshape(n),
                np.array(dom["lo"], dtype=float).reshape(n),
            )

    def _expo(self, x):
        k, s_ = self.expo
        sel = k != 0
        e = np.zeros(self.n)
        e[sel] = np.exp(k[sel] * x[sel] - s_[sel])
        return k, e

    def f(self, x):
        x = np.ascontiguousarray(x, dtype=float)  # values must not depend on the memory layout of the argument (the library may pass a broadcast view)
        extra = 0.0
        if self.expo is not None:
            k, e = self._expo(x)
            extra = float(e.sum())
        return self._f0(x) + extra

    def _f0(self, x):
        with np.errstate(all="ignore"):
            v = 0.5 * x @ self.Q @ x + self.q @ x + (self.a * x**4).sum() / 4
            if self.dom is not None:
                w, lo = self.dom
                sel = w != 0
                v = v + (w[sel] * -np.log(x[sel] - lo[sel])).sum()
        return float(v)

    def g(self, x):
        x = np.ascontiguousarray(x, dtype=float)  # values must not depend on the memory layout of the argument (the library may pass a broadcast view)
        v = self._g0(x)
        if self.expo is not None:
            k, e = self._expo(x)
            v = v + k * e
        return v

    def _g0(self, x):
        with np.errstate(all="ignore"):
            v = self.Q @ x + self.q + self.a * x**3
            if self.dom is not None:
                w, lo = self.dom
                sel = w != 0
                t = np.zeros(self.n)
                t[sel] = -w[sel] / (x[sel] - lo[sel])
                # outside the domain the gradient is undefined as well
                t[sel] = np.where(x[sel] - lo[sel] > 0, t[sel], np.nan)
                v = v + t
        return v

    def c(self, x):
        x = np.ascontiguousarray(x, dtype=float)  # values must not depend on the memory layout of the argument (the library may pass a broadcast view)
        return self.A @ x + 0.5 * self.B @ (x * x) - self.b

    def J(self, x):
        x = np.ascontiguousarray(x, dtype=float)  # values must not depend on the memory layout of the argument (the library may pass a broadcast view)
        return self.A + self.B * x[None, :]

    def H(self, x, y):
        x = np.ascontiguousarray(x, dtype=float)  # values must not depend on the memory layout of the argument (the library may pass a broadcast view)
        y = np.ascontiguousarray(y, dtype=float)
        H = self._H0(x, y)
        if self.expo is not None:
            k, e = self._expo(x)
            H = H + np.diag(k * k * e)
        return H

    def _H0(self, x, y):
        with np.errstate(all="ignore"):
            H = self.Q + np.diag(3 * self.a * x * x)
            if self.m > 0:
                H = H + np.diag(self.B.T @ y)
            if self.dom is not None:
                w, lo = self.dom
                sel = w != 0
                t = np.zeros(self.n)
                t[sel] = w[sel] / (x[sel] - lo[sel]) ** 2
                t[sel] = np.where(x[sel] - lo[sel] > 0, t[sel], np.nan)
                H = H + np.diag(t)
        return H

    def in_bounds(self, x):
        return bool(np.all(x >= self.xl) and np.all(x <= self.xu))


def weights_of(scaling, n, m):
    """(wv, wc, wo) integer weights from a pygradflow Scaling object or None."""
    if scaling is None:
        return np.zeros(n, dtype=int), np.zeros(m, dtype=int), 0
    wo = scaling.obj_weight
    wo = int(np.asarray(wo).reshape(-1)[0]) if np.ndim(wo) else int(wo)
    return (
        np.asarray(scaling.var_weights).astype(int),
        np.asarray(scaling.cons_weights).astype(int),
        wo,
    )


class RefTransform:
    """The internal (scaled + slack/offset) problem, written from the docs:
    x_s = ldexp(x, wv); f_s = ldexp(f, wo); g_s = ldexp(g, wo - wv);
    c_s = ldexp(c, wc); J_s[i,j] = ldexp(J, wc_i - wv_j);
    H_s[i,j] = ldexp(H(x, ldexp(y_s, wc - wo)), wo - wv_i - wv_j);
    equality rows (l == u) get the offset -l_s, every other row a slack column -e_i
    with bounds [l_s, u_s].
    """

    def __init__(self, um: UserModel, wv, wc, wo):
        self.um = um
        self.wv, self.wc, self.wo = np.asarray(wv, int), np.asarray(wc, int), int(wo)
        n, m = um.n, um.m
        self.cl = np.ldexp(um.cl, self.wc)
        self.cu = np.ldexp(um.cu, self.wc)
        self.slack = [i for i in range(m) if self.cl[i] != self.cu[i]]
        self.off = np.array(
            [(-self.cl[i] if self.cl[i] == self.cu[i] else 0.0) for i in range(m)]
        )
        self.ns = len(self.slack)
        self.N = n + self.ns
        self.lb = np.concatenate([np.ldexp(um.xl, self.wv), self.cl[self.slack]])
        self.ub = np.concatenate([np.ldexp(um.xu, self.wv), self.cu[self.slack]])

    # ---- maps between spaces
    def user_x(self, xi):
        return np.ldexp(xi[: self.um.n], -self.wv)

    def to_internal(self, x, y):
        um = self.um
        xs = np.ldexp(x, self.wv)
        ys = np.ldexp(y, -(self.wc - self.wo))
        if self.ns:
            cs = np.ldexp(um.c(x), self.wc)
            s = np.clip(cs[self.slack], self.cl[self.slack], self.cu[self.slack])
            xs = np.concatenate([xs, s])
        return xs, ys

    def to_user(self, xi, y, d):
        n = self.um.n
        x = np.ldexp(xi[:n], -self.wv)
        yu = np.ldexp(y, self.wc - self.wo)
        du = np.ldexp(d[:n], self.wv - self.wo)
        return x, yu, du

    # ---- internal functions
    def f(self, xi):
        return float(np.ldexp(self.um.f(self.user_x(xi)), self.wo))

    def g(self, xi):
        g = np.ldexp(self.um.g(self.user_x(xi)), self.wo - self.wv)
        return np.concatenate([g, np.zeros(self.ns)])

    def c(self, xi):
        um = self.um
        if um.m == 0:
            return np.zeros(0)
        c = np.ldexp(um.c(self.user_x(xi)), self.wc)
        s = xi[um.n :]
        for k, i in enumerate(self.slack):
            c[i] = c[i] - s[k]
        for i in range(um.m):
            if i not in self.slack and self.off[i] != 0:
                c[i] = c[i] + self.off[i]
        return c

    def J(self, xi):
        um = self.um
        if um.m == 0:
            return np.zeros((0, self.N))
        J = np.ldexp(um.J(self.user_x(xi)), self.wc[:, None] - self.wv[None, :])
        E = np.zeros((um.m, self.ns))
        for k, i in enumerate(self.slack):
            E[i, k] = -1.0
        return np.hstack([J, E])

    def H(self, xi, y):
        um = self.um
        n = um.n
        yo = np.ldexp(y, self.wc - self.wo) if um.m > 0 else y
        H = np.ldexp(
            um.H(self.user_x(xi), yo), self.wo - self.wv[:, None] - self.wv[None, :]
        )
        Hf = np.zeros((self.N, self.N))
        Hf[:n, :n] = H
        return Hf

    # ---- augmented Lagrangian flow (R-flow)
    def aug_lag_dx(self, xi, y, rho):
        c = self.c(xi)
        return self.g(xi) + self.J(xi).T @ (rho * c + y)

    def flow_residual(self, zx, zy, hx_, hy_, dt, rho):
        """F(z; zhat, dt, rho) = (x - P_box(xhat - dt grad_x L_rho(x,y)),  y - yhat - dt c(x))"""
        p = hx_ - dt * self.aug_lag_dx(zx, zy, rho)
        rx = zx - np.clip(p, self.lb, self.ub)
        ry = zy - hy_ - dt * self.c(zx)
        return np.concatenate([rx, ry])


def tolerances(opt_tol, active_tol, wv, wc, wo):
    tx = opt_tol * np.ldexp(1.0, wv - wo)
    tc = opt_tol * np.ldexp(1.0, -wc)
    ty = opt_tol * np.ldexp(1.0, wc - wo)
    ax = active_tol * np.ldexp(1.0, -wv)
    ac = (opt_tol + active_tol) * np.ldexp(1.0, -wc)
    return tx, tc, ty, ax, ac


def kkt_violations(um: UserModel, x, y, d, opt_tol, active_tol, wv, wc, wo, slop=1e-6):
    """R-kkt.  Returns list of (clause, detail) for the user-space KKT conditions
    of DESIGN.md section 6 / C01."""
    bad = []
    f = 1.0 + slop
    tx, tc, ty, ax, ac = tolerances(opt_tol, active_tol, wv, wc, wo)
    if not (np.isfinite(x).all() and np.isfinite(y).all() and np.isfinite(d).all()):
        return [("finite", "non-finite x, y or d")]
    if np.shape(x) != um.xl.shape or np.shape(y) != um.cl.shape or np.shape(d) != um.xl.shape:
        return [("finite", "x, y, d have shapes %s, %s, %s for a problem with %d variables and %d rows" % (np.shape(x), np.shape(y), np.shape(d), um.n, um.m))]
    if (x < um.xl).any() or (x > um.xu).any():
        j = int(np.argmax((x < um.xl) | (x > um.xu)))
        bad.append(("bounds", "x[%d]=%r outside [%r,%r]" % (j, x[j], um.xl[j], um.xu[j])))
    g = um.g(x)
    if um.m > 0:
        c = um.c(x)
        J = um.J(x)
        S = np.abs(um.A) @ np.abs(x) + 0.5 * np.abs(um.B) @ (x * x) + np.abs(um.b) + 1.0
        r1 = 64 * EPS * S
        lo = (um.cl - c) > tc * f + r1
        hi = (c - um.cu) > tc * f + r1
        if lo.any() or hi.any():
            i = int(np.argmax(lo | hi))
            bad.append(("feas", "row %d: c=%r not in [%r,%r] tol %r" % (i, c[i], um.cl[i], um.cu[i], tc[i])))
        res = g + J.T @ y + d
        Sx = np.abs(g) + np.abs(J).T @ np.abs(y) + np.abs(d) + 1.0
        pos = y > ty * f
        neg = y < -ty * f
        bp = pos & ~(c >= um.cu - ac * f - r1)
        bn = neg & ~(c <= um.cl + ac * f + r1)
        if bp.any():
            i = int(np.argmax(bp))
            bad.append(("ysign", "y[%d]=%r > 0 but c=%r below upper %r" % (i, y[i], c[i], um.cu[i])))
        if bn.any():
            i = int(np.argmax(bn))
            bad.append(("ysign", "y[%d]=%r < 0 but c=%r above lower %r" % (i, y[i], c[i], um.cl[i])))
    else:
        res = g + d
        Sx = np.abs(g) + np.abs(d) + 1.0
    st = np.abs(res) > tx * f + 64 * EPS * Sx
    if st.any():
        j = int(np.argmax(st))
        bad.append(("stat", "component %d: |grad L + d|=%r > %r" % (j, abs(res[j]), tx[j])))
    atu = np.abs(x - um.xu) <= ax
    atl = np.abs(x - um.xl) <= ax
    if ((d != 0) & ~(atu | atl)).any():
        j = int(np.argmax((d != 0) & ~(atu | atl)))
        bad.append(("dactive", "d[%d]=%r but x=%r not at a bound" % (j, d[j], x[j])))
    fixed = atu & atl
    if (((d > 0) & ~atu) | ((d < 0) & ~atl)).any():
        w = ((d > 0) & ~atu) | ((d < 0) & ~atl)
        w = w & ~fixed
        if w.any():
            j = int(np.argmax(w))
            bad.append(("dsign", "d[%d]=%r has the wrong sign for x=%r in [%r,%r]" % (j, d[j], x[j], um.xl[j], um.xu[j])))
    return bad


def infeas_stationarity(rt: RefTransform, xi, active_tol):
    """R-infeas: projected gradient of 1/2 ||c_s(x,s)||^2 over the internal box.
    Returns (violation_inf_norm, projected_gradient_abs, rounding_scale)."""
    c = rt.c(xi)
    J = rt.J(xi)
    pg = J.T @ c
    atl = np.abs(xi - rt.lb) <= active_tol
    atu = np.abs(rt.ub - xi) <= active_tol
    both = atl & atu
    pg = np.where(atl & ~both, np.minimum(pg, 0.0), pg)
    pg = np.where(atu & ~both, np.maximum(pg, 0.0), pg)
    S = np.abs(J).T @ np.abs(c)
    viol = float(np.abs(c).max()) if c.size else 0.0
    return viol, np.abs(pg), S


class RefFilter:
    """R-filter: the textbook Pareto front over pairs (smaller is better in both)."""

    def __init__(self):
        self.entries = []

    def insert(self, a, b):
        for (p, q) in self.entries:
            if p <= a and q <= b:
                return False
        self.entries = [(p, q) for (p, q) in self.entries if not (a <= p and b <= q)]
        self.entries.append((a, b))
        return True
