"""World generators.  Everything random about a case is drawn here, once,
from numpy's PCG64 seeded by (VERIF_SEED, profile, index); execution never
consults a PRNG again."""
import numpy as np

from .clock import T0
from .util import stable_hash

INF = float("inf")
T0 = T0  # re-exported for property modules


def rng_for(seed, profile, index):
    return np.random.default_rng([int(seed) & 0x7FFFFFFF, stable_hash(profile), int(index)])


def _r(rng, *shape, scale=1.0, digits=3):
    """Gaussian numbers rounded to a few digits: worlds stay readable and shrink well."""
    return np.round(rng.normal(size=shape) * scale, digits)


def gen_problem(rng, family=None, nmax=6, mmax=3, fixed_prob=0.3, allow_dom=True):
    family = family or str(rng.choice(["qp", "nlp", "infeasible", "unbounded", "degenerate", "domain"]))
    n = int(rng.integers(1, nmax + 1))
    m = int(rng.integers(0, mmax + 1))
    if family == "zero-cons":
        m = 0
        family = "qp"
    if family == "saddle" and rng.random() < 0.6:
        m = 0
    M = _r(rng, n, n)
    Q = M @ M.T + 0.5 * np.eye(n)
    if family == "unbounded":
        Q = np.zeros((n, n))
    if family == "degenerate":
        Q = M[:, :1] @ M[:, :1].T
    if family == "saddle":
        # non-convex quadratic whose negative curvatures are exact binary fractions: H + lambda*I is
        # *exactly* singular for lambda in {1, 1/2, 2, 1/4, ...}, the values the step-size control visits
        Q = np.diag(rng.choice([-2.0, -1.0, -0.5, -0.25, 0.5, 1.0, 2.0], size=n, p=[0.1, 0.3, 0.15, 0.1, 0.1, 0.15, 0.1]))
    Q = np.round(Q, 6)
    q = _r(rng, n, scale=2.0)
    quart = family in ("nlp", "infeasible", "domain", "expo")
    a = np.round(np.abs(_r(rng, n)) * rng.integers(0, 2, size=n), 3) if quart else np.zeros(n)
    A = _r(rng, m, n) * (rng.random((m, n)) < 0.7)
    B = (_r(rng, m, n) * (rng.random((m, n)) < 0.3)) if quart else np.zeros((m, n))
    if family == "degenerate" and m >= 2:
        A[1] = A[0]
        B[1] = B[0]
    xl = np.full(n, -INF)
    xu = np.full(n, INF)
    for j in range(n):
        t = int(rng.integers(0, 5))
        if t == 1:
            xl[j] = _r(rng) - 1
        elif t == 2:
            xu[j] = _r(rng) + 1
        elif t == 3:
            xl[j] = _r(rng) - 1
            xu[j] = xl[j] + abs(_r(rng)) + 0.1
        elif t == 4 and rng.random() < fixed_prob:
            xl[j] = xu[j] = _r(rng)
    if family == "saddle":
        # boxed, so that the problem is bounded
        for j in range(n):
            if not np.isfinite(xl[j]):
                xl[j] = float(np.round(min(xu[j] if np.isfinite(xu[j]) else 0.0, 0.0) - 1.0 - abs(rng.normal()), 3))
            if not np.isfinite(xu[j]):
                xu[j] = float(np.round(max(xl[j], 0.0) + 1.0 + abs(rng.normal()), 3))
    xl = np.round(xl, 3)
    xu = np.round(xu, 3)
    xfeas = np.clip(_r(rng, n), xl, xu)
    cf = A @ xfeas + 0.5 * B @ (xfeas * xfeas)
    b = np.zeros(m)
    cl = np.zeros(m)
    cu = np.zeros(m)
    for i in range(m):
        t = int(rng.integers(0, 4))
        if rng.random() < 0.04 and family in ("qp", "nlp", "degenerate"):
            cl[i], cu[i] = -INF, INF  # a free row: declared, but it constrains nothing
            continue
        if t == 0:
            # equality, right-hand side zero or non-zero (offset path)
            if rng.random() < 0.5:
                cl[i] = cu[i] = 0.0
                b[i] = cf[i]
            else:
                cl[i] = cu[i] = np.round(cf[i], 3) if abs(cf[i]) > 1e-3 else 1.0
                b[i] = cf[i] - cl[i]
        elif t == 1:
            cl[i] = np.round(cf[i] - abs(_r(rng)), 3)
            cu[i] = INF
        elif t == 2:
            cl[i] = -INF
            cu[i] = np.round(cf[i] + abs(_r(rng)), 3)
        elif rng.random() < 0.15:
            # a *narrow* ranged row: much wider than the tolerances, far narrower than the values
            w_ = 2e-6 * max(1.0, abs(cf[i])) * float(rng.choice([1.0, 2.0]))
            cl[i] = cf[i] - w_ * float(rng.choice([0.2, 1.0]))
            cu[i] = cl[i] + 2 * w_
        else:
            cl[i] = np.round(cf[i] - abs(_r(rng)) - 0.01, 3)
            cu[i] = np.round(cf[i] + abs(_r(rng)) + 0.01, 3)
    if family == "infeasible" and m > 0:
        # row 0: x_0^2 + 1 = 0
        A[0] = 0
        B[0] = 0
        B[0, 0] = 2.0
        b[0] = -1.0
        cl[0] = cu[0] = 0.0
    dom = None
    if family == "domain" and allow_dom:
        w = np.zeros(n)
        lo = np.zeros(n)
        for j in range(n):
            if np.isfinite(xl[j]) and xl[j] < xu[j] and rng.random() < 0.8:
                w[j] = float(rng.choice([0.1, 1.0]))
                lo[j] = xl[j] - float(rng.choice([0.25, 1.0]))
        if w.any():
            dom = {"w": w, "lo": lo}
    expo = None
    x0 = np.clip(_r(rng, n, scale=2.0), xl, xu)
    if family == "expo":
        k = np.zeros(n)
        s_ = np.zeros(n)
        for j in range(n):
            if rng.random() < 0.7:
                k[j] = float(rng.choice([-400.0, -60.0, 60.0, 400.0]))
                s_[j] = float(np.round(k[j] * x0[j] + float(rng.choice([0.0, 3.0])), 6))  # exp(<= 3) at the start
        if k.any():
            expo = {"k": k, "s": s_}
    if rng.random() < 0.2 and family != "expo":
        # start on the boundary where there is one
        for j in range(n):
            if np.isfinite(xl[j]) and rng.random() < 0.5:
                x0[j] = xl[j]
            elif np.isfinite(xu[j]) and rng.random() < 0.5:
                x0[j] = xu[j]
    y0 = _r(rng, m) * int(rng.integers(0, 2))
    spec = dict(
        family=family, n=n, m=m, Q=Q, q=q, a=a, A=A, B=B, b=np.round(b, 9), xl=xl, xu=xu, cl=cl, cu=cu, dom=dom, expo=expo,
        policy="fresh", fmt=str(rng.choice(["coo", "csr", "csc"])),
    )
    return spec, x0, y0


def magnify(rng, spec, x0, p=0.2):
    """Data of very different magnitudes (exact powers of two, so nothing is rounded): rows multiplied by
    2^7..2^14 (large bound values, tiny multipliers), the objective multiplied by 2^7..2^14 (large
    multipliers and bound duals), or the whole problem shifted far away from the origin (|x| ~ 2^10..2^18;
    quadratic/affine families only).  Tolerances that are silently *relative* to such magnitudes show here."""
    x0 = np.array(x0, float)
    tags = []
    if rng.random() < p and spec["m"]:
        for i in range(spec["m"]):
            if rng.random() < 0.6:
                k = int(rng.choice([7, 10, 14]))
                for key in ("A", "B"):
                    M = np.array(spec[key], float)
                    M[i] = np.ldexp(M[i], k)
                    spec[key] = M
                for key in ("b", "cl", "cu"):
                    v = np.array(spec[key], float)
                    v[i] = np.ldexp(v[i], k)
                    spec[key] = v
                tags.append("bigrow")
    if rng.random() < p and spec.get("dom") is None and spec.get("expo") is None:
        k = int(rng.choice([7, 10, 14]))
        for key in ("Q", "q", "a"):
            spec[key] = np.ldexp(np.array(spec[key], float), k)
        tags.append("bigcost")
    affine = (not np.any(np.array(spec["a"], float))) and (not np.any(np.array(spec["B"], float))) and spec.get("dom") is None and spec.get("expo") is None
    if rng.random() < p and affine:
        n = spec["n"]
        s = np.ldexp(rng.choice([-1.0, 1.0], size=n), rng.integers(10, 19, size=n)) * (rng.random(n) < 0.7)
        Q, A = np.array(spec["Q"], float).reshape(n, n), np.array(spec["A"], float).reshape(spec["m"], n)
        spec["q"] = np.array(spec["q"], float) - Q @ s
        spec["b"] = np.array(spec["b"], float) + A @ s
        spec["xl"] = np.array(spec["xl"], float) + s
        spec["xu"] = np.array(spec["xu"], float) + s
        for j in range(n):
            # boxes that are narrow *relative to |x|* (a few 1e-9 |x| wide) but many absolute tolerances wide
            if s[j] != 0 and np.isfinite(spec["xl"][j]) and spec["xu"][j] > spec["xl"][j] and rng.random() < 0.4:
                spec["xu"][j] = spec["xl"][j] + float(rng.choice([0.3e-8, 0.7e-8])) * abs(spec["xl"][j])
        x0 = np.clip(x0 + s, spec["xl"], spec["xu"])
        if spec.get("family") in ("qp", "zero-cons") and rng.random() < 0.6:
            # the unconstrained minimiser lies just inside some bounds: a few 1e-10..1e-9 |x| away (many absolute
            # activity tolerances, but a tiny distance relative to the size of the variable)
            xs = x0.copy()
            for j in range(n):
                d_ = float(rng.choice([1e-10, 1e-9, 3e-9]))
                if s[j] != 0 and np.isfinite(spec["xl"][j]) and rng.random() < 0.5:
                    xs[j] = spec["xl"][j] + d_ * abs(spec["xl"][j])
                elif s[j] != 0 and np.isfinite(spec["xu"][j]) and rng.random() < 0.5:
                    xs[j] = spec["xu"][j] - d_ * abs(spec["xu"][j])
            xs = np.clip(xs, spec["xl"], spec["xu"])
            spec["q"] = -(Q @ xs)
        tags.append("far")
    if tags:
        spec["magnified"] = sorted(set(tags))
    return x0


def integer_bounds(rng, spec, x0):
    """All variable and row bounds become finite integers, so that the bound arrays can be handed over
    with an integer dtype (arrays written with integer literals).  Returns the (re-clipped) start."""
    xl, xu = np.array(spec["xl"], float), np.array(spec["xu"], float)
    x0 = np.array(x0, float)
    for j in range(spec["n"]):
        if xl[j] == xu[j]:
            xl[j] = xu[j] = np.round(xl[j])
            continue
        lo = np.floor(xl[j]) if np.isfinite(xl[j]) else np.floor(min(x0[j], 0.0) - int(rng.integers(1, 6)))
        hi = np.ceil(xu[j]) if np.isfinite(xu[j]) else np.ceil(max(x0[j], 0.0) + int(rng.integers(1, 6)))
        xl[j], xu[j] = lo, max(hi, lo)
    cl, cu = np.array(spec["cl"], float), np.array(spec["cu"], float)
    for i in range(spec["m"]):
        if cl[i] == cu[i]:
            cl[i] = cu[i] = np.round(cl[i])
            continue
        lo = np.floor(cl[i]) if np.isfinite(cl[i]) else -float(rng.integers(20, 60))
        hi = np.ceil(cu[i]) if np.isfinite(cu[i]) else float(rng.integers(20, 60))
        cl[i], cu[i] = lo, max(hi, lo)
    spec["xl"], spec["xu"], spec["cl"], spec["cu"] = xl, xu, cl, cu
    spec["int_bounds"] = True
    return np.clip(x0, xl, xu)


def start_forms(rng, spec, x0, y0, p=0.15):
    """solve() may be called without a start (None: the origin clipped into the box, zero multipliers)
    or with scalars that are broadcast.  Returns (effective x0, effective y0, start_form dict)."""
    x0 = np.array(x0, float)
    y0 = np.array(y0, float)
    form = {}
    xl, xu = np.array(spec["xl"], float), np.array(spec["xu"], float)
    u = rng.random()
    if u < p:
        form["x"] = "none"
        x0 = np.clip(np.zeros(spec["n"]), xl, xu)
    elif u < 1.5 * p:
        lo, hi = float(np.max(xl)), float(np.min(xu))
        if lo <= hi:
            s = float(np.round(np.clip(rng.normal(), lo, hi), 3))
            s = min(max(s, lo), hi)
            form["x"] = "scalar"
            x0 = np.full(spec["n"], s)
    u = rng.random()
    if u < p:
        form["y"] = "none"
        y0 = np.zeros(spec["m"])
    elif u < 1.5 * p and spec["m"]:
        form["y"] = "scalar"
        y0 = np.full(spec["m"], float(np.round(rng.normal(), 3)))
    return x0, y0, form


ALGO_KNOBS = ("newton_type", "step_solver_type", "linear_solver_type", "step_control_type", "penalty_update", "active_set_type")


NUMERIC_KNOBS = {
    # tuning constants of the controllers / Newton loop / tolerances: legal, rarely-changed values
    "newton_tol": [1e-10, 1e-6, 1e-4],
    "theta_max": [0.5, 0.99],
    "theta_ref": [0.1, 0.25, 0.45],
    "K_P": [0.0, 0.05, 0.5],
    "K_I": [0.0, 0.05],
    "lamb_min": [1e-6, 1e-2, 0.5],
    "lamb_red": [0.1, 0.25, 0.9],
    "lamb_inc": [1.5, 4.0, 10.0],
    "active_tol": [1e-10, 1e-6],
    "opt_tol": [1e-8, 1e-4],
}


def gen_params(rng, spec, x0, y0, *, p_knob=0.5, scaling=True, globalized=True, filters=True, reporting=False, limits=True, numeric=0.0):
    """Configuration swarm: each knob leaves its default with probability p_knob; with probability
    `numeric` one to three numeric tuning constants leave their defaults as well."""
    kw = {}
    num_rng = np.random.default_rng(int(rng.integers(0, 2**31))) if numeric else None

    def on():
        return rng.random() < p_knob

    if on():
        names = ["Simplified", "Full", "ActiveSet"] + (["Globalized"] if globalized else [])
        kw["newton_type"] = str(rng.choice(names))
    if on():
        kw["step_solver_type"] = str(rng.choice(["Standard", "Extended", "Symmetric", "Asymmetric"]))
    if on():
        sym = kw.get("step_solver_type", "Symmetric") == "Symmetric"
        kw["linear_solver_type"] = str(rng.choice(["LU", "GMRES"] + (["MINRES"] if sym else [])))
    if on():
        kw["step_control_type"] = str(rng.choice(["Exact", "Fixed", "ResiduumRatio", "DistanceRatio"]))
    if on():
        names = ["Constant", "DualNorm", "DualEquilibration", "ParetoDecrease"] + (["ObjectiveFilter", "LagrangianFilter"] if filters else [])
        kw["penalty_update"] = str(rng.choice(names))
    if on():
        ast = str(rng.choice(["Standard", "Explicit", "SmallestActiveSet", "LargestActiveSet"]))
        kw["active_set_type"] = ast
        if ast == "Explicit":
            kw["active_set_tau"] = float(rng.choice([0.1, 1.0, 10.0]))
    if scaling and on():
        st = str(rng.choice(["GradJac", "KKT", "Nominal", "Custom"]))
        kw["scaling_type"] = st
        if st == "Custom":
            kw["scaling"] = {
                "var": rng.integers(-4, 5, size=spec["n"]).tolist(),
                "cons": rng.integers(-4, 5, size=spec["m"]).tolist(),
                "obj": int(rng.integers(-3, 4)),
            }
            u_ = rng.random()
            if u_ < 0.08:
                kw["scaling"]["var"] = [0] * spec["n"]  # rows-only scaling
                kw["scaling"]["obj"] = 0
            elif u_ < 0.16:
                kw["scaling"]["var"] = [0] * spec["n"]  # objective-only scaling
                kw["scaling"]["cons"] = [0] * spec["m"]
                kw["scaling"]["obj"] = int(rng.choice([-3, -1, 1, 2]))
            elif u_ < 0.24:
                kw["scaling"]["cons"] = [0] * spec["m"]  # variables-only scaling
                kw["scaling"]["obj"] = 0
        else:
            kw["scaling_primal"] = "x0"
            kw["scaling_dual"] = "y0"
    if rng.random() < 0.2:
        kw["rho"] = float(10.0 ** int(rng.integers(-8, 3)))
    if rng.random() < 0.2:
        kw["lamb_init"] = float(10.0 ** int(rng.integers(-4, 4)))
    if rng.random() < 0.1:
        kw["lamb_max"] = float(10.0 ** int(rng.integers(3, 9)))
    if limits:
        kw["iteration_limit"] = int(rng.choice([5, 50, 400]))
    if reporting:
        if rng.random() < 0.3:
            kw["report_rcond"] = True
        if rng.random() < 0.3:
            kw["collect_path"] = True
    if numeric and num_rng.random() < numeric:
        names = sorted(NUMERIC_KNOBS)
        for _ in range(int(num_rng.integers(1, 4))):
            k = names[int(num_rng.integers(0, len(names)))]
            kw.setdefault(k, float(num_rng.choice(NUMERIC_KNOBS[k])))
        if kw.get("lamb_min", 0.0) >= kw.get("lamb_init", 1.0):
            # the floor of the inverse step size lies *above* its start value: legal, and the
            # place where a floor that is applied in one spot but not another shows
            pass
    return kw


def silent_obs():
    return {"level": "CRITICAL", "callbacks": []}


def quiet_params(kw):
    """No displayed row ever: huge interval (with a constant clock)."""
    kw = dict(kw)
    kw["display_interval"] = 1e18
    return kw


def gen_clock(rng, n=4000, kind=None):
    kind = kind or str(rng.choice(["const", "tick", "random", "stall-jump"]))
    if kind == "const":
        return {"t0": T0, "steps": [], "tail": 0.0}
    if kind == "tick":
        return {"t0": T0, "steps": [], "tail": float(rng.choice([0.001, 0.06, 0.3]))}
    if kind == "random":
        steps = rng.choice([0.0, 0.0, 0.01, 0.3, 0.07], size=n).tolist()
        return {"t0": T0, "steps": steps, "tail": 0.01}
    steps = rng.choice([0.0, 0.0, 0.0, 0.01, 0.3, -0.2, 5.0], size=n, p=[0.3, 0.2, 0.1, 0.2, 0.1, 0.05, 0.05]).tolist()
    return {"t0": T0, "steps": steps, "tail": 0.0}


def gen_obs(rng):
    lvl = str(rng.choice(["CRITICAL", "WARNING", "INFO", "DEBUG"]))
    cbs = [] if rng.random() < 0.5 else ["touch"]
    u = rng.random()
    if u < 0.08:
        cbs.append("oneshot")
    elif u < 0.16:
        cbs.append("spawner")
    return {"level": lvl, "callbacks": cbs}


def base_world(seed, profile, index, spec, x0, y0, params, clock=None, obs=None, faults=None, solver="homotopy", case=None, start_form=None):
    return {
        "start_form": start_form or {},
        "v": 1,
        "seed": int(seed),
        "profile": profile,
        "index": int(index),
        "problem": spec,
        "x0": x0,
        "y0": y0,
        "params": params,
        "clock": clock or {"t0": T0, "steps": [], "tail": 0.0},
        "obs": obs or silent_obs(),
        "faults": faults or [],
        "solver": solver,
        "case": case or {},
    }


def gen_convex_qp(rng, n=None, banded=False):
    """The conservative generator of C03's class: strictly convex quadratic objective
    (eigenvalues in [0.5, 20] dense / diagonally dominant banded), affine rows with
    sigma_min(A restricted to non-fixed columns) >= 0.2 and ||A|| <= 10, a point xbar that is
    strictly inside every inequality and every non-fixed bound by >= 0.1, right-hand sides
    from xbar, in-bounds start with ||x0 - xbar|| moderate."""
    n = n or int(rng.integers(1, 9))
    if banded:
        d = rng.uniform(2, 6, size=n)
        o = rng.uniform(-1, 1, size=n - 1)
        Q = np.diag(d) + np.diag(o, 1) + np.diag(o, -1) + 0.5 * np.eye(n)
    else:
        Vm, _ = np.linalg.qr(rng.normal(size=(n, n)))
        lam = rng.uniform(0.5, 20, size=n)
        Q = (Vm * lam) @ Vm.T
        Q = (Q + Q.T) / 2
    q = rng.normal(size=n) * 3
    xl = np.full(n, -INF)
    xu = np.full(n, INF)
    xbar = rng.normal(size=n) * 2
    fixed = np.zeros(n, bool)
    for j in range(n):
        t = int(rng.integers(0, 6))
        if t == 1:
            xl[j] = xbar[j] - rng.uniform(0.1, 3)
        elif t == 2:
            xu[j] = xbar[j] + rng.uniform(0.1, 3)
        elif t == 3:
            xl[j] = xbar[j] - rng.uniform(0.1, 3)
            xu[j] = xbar[j] + rng.uniform(0.1, 3)
        elif t == 4 and rng.random() < 0.4:
            xl[j] = xu[j] = xbar[j]
            fixed[j] = True
    nfree = int((~fixed).sum())
    mmax = min(nfree, 4 if not banded else n // 4)
    m = int(rng.integers(0, mmax + 1))
    while True:
        if banded:
            A = np.zeros((m, n))
            for i in range(m):
                j0 = int(rng.integers(0, n - 2))
                A[i, j0 : j0 + 3] = rng.normal(size=3)
        else:
            A = rng.normal(size=(m, n))
        if m == 0:
            break
        Af = A[:, ~fixed]
        if np.linalg.svd(Af, compute_uv=False).min() >= 0.2 and np.linalg.norm(A, 2) <= 10:
            break
    cf = A @ xbar
    cl = np.zeros(m)
    cu = np.zeros(m)
    b = np.zeros(m)
    for i in range(m):
        t = int(rng.integers(0, 4))
        if t == 0:
            if rng.random() < 0.5:
                b[i] = cf[i]
            else:
                cl[i] = cu[i] = cf[i]
        elif t == 1:
            cl[i] = cf[i] - rng.uniform(0.1, 2)
            cu[i] = INF
        elif t == 2:
            cl[i] = -INF
            cu[i] = cf[i] + rng.uniform(0.1, 2)
        else:
            cl[i] = cf[i] - rng.uniform(0.1, 2)
            cu[i] = cf[i] + rng.uniform(0.1, 2)
    x0 = np.clip(xbar + rng.normal(size=n) * float(rng.choice([0.1, 1, 5])) / max(1.0, np.sqrt(n) / 2), xl, xu)
    spec = dict(
        family="convex-qp" + ("-banded" if banded else ""), n=n, m=m, Q=Q, q=q, a=np.zeros(n), A=A, B=np.zeros((m, n)), b=b,
        xl=xl, xu=xu, cl=cl, cu=cu, dom=None, policy="fresh", fmt=str(rng.choice(["coo", "csr", "csc"])),
    )
    return spec, x0, np.zeros(m)
