"""Virtual clock.  Installed as the module attribute ``pygradflow.timer.time``
(the only clock use in the package), so every ``time.time()`` of the solver is
a scheduled event of the simulation."""
import sys

T0 = 4.0e9


class VirtualClock:
    def __init__(self, plan=None, log=None):
        plan = plan or {}
        # virtual "now" starts far beyond the real clock (year ~2096): a time captured from the
        # real clock (import time, a stale origin) is then always visibly in the virtual past
        self.t0 = float(plan.get("t0", T0))
        self.t = self.t0
        self.steps = list(plan.get("steps", ()))
        self.tail = float(plan.get("tail", 0.0))
        self.expire = plan.get("expire_at_read")
        self.per_eval = float(plan.get("per_eval", 0.0))  # virtual seconds every callback evaluation takes
        self.n = 0
        self.reads = []  # (reader, value)
        self.probe = None  # optional callable sampled at every read (progress of the run at that moment)
        self.probed = []
        self.log = log

    def _reader(self):
        fr = sys._getframe(2)
        while fr is not None and fr.f_code.co_filename == __file__:
            fr = fr.f_back  # skip the aliases above
        if fr is None:
            return "?"
        who = fr.f_code.co_name
        slf = fr.f_locals.get("self")
        cls = type(slf).__name__ if slf is not None else "?"
        back = fr.f_back.f_code.co_name if fr.f_back is not None else "?"
        return "%s.%s<%s" % (cls, who, back)

    def time(self):
        i = self.n
        # the plan's increments always apply (a stopped run replays the reference's clock up to the
        # expiry); from read `expire` on the deadline has passed
        self.t += self.steps[i] if i < len(self.steps) else self.tail
        if self.expire is not None and i >= self.expire:
            self.t = max(self.t, self.t0 + 1e9)
        self.n += 1
        reader = self._reader()
        self.reads.append((reader, self.t))
        if self.probe is not None:
            try:
                self.probed.append(self.probe())
            except Exception:  # noqa
                self.probed.append(None)
        if self.log is not None:
            self.log(("clk", i, reader, float(self.t)))
        return self.t

    # the other clocks of the time module read the same virtual time, so a refactoring that
    # switches to monotonic()/perf_counter() neither crashes nor escapes the simulation
    def __call__(self):
        return self.time()

    def monotonic(self):
        return self.time()

    def perf_counter(self):
        return self.time()

    def process_time(self):
        return self.time()

    def time_ns(self):
        return int(self.time() * 1e9)

    def monotonic_ns(self):
        return int(self.time() * 1e9)

    def perf_counter_ns(self):
        return int(self.time() * 1e9)

    def sleep(self, dt):
        self.t += max(0.0, float(dt))

    def __getattr__(self, name):
        # formatting helpers etc. come from the real module
        import time as _real

        return getattr(_real, name)


def is_timer_limit_read(reader):
    """A read through which the solver can notice the deadline."""
    return reader.startswith("Timer.elapsed<remaining")


def is_timer_start(reader):
    return reader.startswith("Timer.__init__")
