"""Small helpers shared by the simulator: byte-exact encodings, digests, JSON."""
import hashlib
import json
import struct
import zlib

import numpy as np


def fb(v) -> bytes:
    """8 raw bytes of a float (exactness: digests never see decimal text)."""
    return struct.pack("<d", float(v))


def ab(a) -> bytes:
    a = np.ascontiguousarray(np.asarray(a, dtype=np.float64))
    return a.tobytes()


def hx(b: bytes) -> str:
    return hashlib.sha256(b).hexdigest()[:16]


def stable_hash(s: str) -> int:
    return zlib.crc32(s.encode()) & 0x7FFFFFFF


class Digest:
    """Incremental sha256 over a canonical event encoding."""

    def __init__(self):
        self.h = hashlib.sha256()
        self.n = 0

    def add(self, *parts):
        self.n += 1
        for p in parts:
            if isinstance(p, bytes):
                self.h.update(b"b" + struct.pack("<I", len(p)) + p)
            elif isinstance(p, str):
                e = p.encode()
                self.h.update(b"s" + struct.pack("<I", len(e)) + e)
            elif isinstance(p, bool):
                self.h.update(b"T" if p else b"F")
            elif isinstance(p, int):
                self.h.update(b"i" + str(p).encode() + b";")
            elif isinstance(p, float):
                self.h.update(b"f" + fb(p))
            elif p is None:
                self.h.update(b"N")
            elif isinstance(p, np.ndarray):
                self.h.update(b"a" + struct.pack("<I", p.size) + ab(p))
            else:
                raise TypeError("undigestable %r" % (type(p),))
        self.h.update(b"|")

    def hex(self):
        return self.h.hexdigest()


def to_jsonable(o):
    if isinstance(o, np.ndarray):
        return o.tolist()
    if isinstance(o, (np.floating,)):
        return float(o)
    if isinstance(o, (np.integer,)):
        return int(o)
    if isinstance(o, (np.bool_,)):
        return bool(o)
    if isinstance(o, dict):
        return {str(k): to_jsonable(v) for k, v in o.items()}
    if isinstance(o, (list, tuple)):
        return [to_jsonable(v) for v in o]
    if isinstance(o, bytes):
        return o.hex()
    return o


def dumps(o, **kw):
    return json.dumps(to_jsonable(o), sort_keys=True, **kw)


def canon(o) -> str:
    return json.dumps(to_jsonable(o), sort_keys=True, separators=(",", ":"))


def world_key(world) -> str:
    return hashlib.sha256(canon(world).encode()).hexdigest()[:16]


EPS = float(np.finfo(float).eps)
