"""Simulated devices: the user's problem callbacks and the linear solvers.

Both are *seams the repository already has* (the Problem base class is the
public extension point; the linear solver classes are wrapped at class level).
Nothing in here draws random numbers or reads a real clock.
"""
import sys

import numpy as np
import scipy as sp

from pygradflow.problem import Problem

from .model import UserModel

COMPS = ("obj", "grad", "cons", "jac", "hess")

_PKG = "pygradflow"


def site_has(site, name):
    """Does the stack (qualified names) contain a function called `name`?"""
    return any(q.split(".")[-1] == name for q in site)


def call_site(depth=2, limit=40):
    """Names of the pygradflow functions on the stack, innermost first.
    Identified by function name (not line) so that refactoring that moves
    lines does not change attributions."""
    names = []
    f = sys._getframe(depth)
    k = 0
    while f is not None and k < limit:
        fn = f.f_code.co_filename
        if "/" + _PKG + "/" in fn.replace("\\", "/"):
            names.append(getattr(f.f_code, "co_qualname", f.f_code.co_name))
        f = f.f_back
        k += 1
    return names


class SimProblem(Problem):
    """The problem device.  Values come from the reference UserModel; on the way
    out they pass (i) the recorder, (ii) the fault plan, (iii) the return policy."""

    def __init__(self, spec, log=None, faults=(), policy=None, fmt=None):
        self.spec = spec
        self.um = UserModel(spec)
        um = self.um
        # caller-owned bound arrays, kept to verify they are never modified (C11)
        self.given = {"xl": um.xl.copy(), "xu": um.xu.copy(), "cl": um.cl.copy(), "cu": um.cu.copy()}
        g = self.given
        if spec.get("int_bounds"):
            # bound arrays written with integer literals come with an integer dtype (possible only
            # for arrays without infinite entries)
            for k_ in ("xl", "xu", "cl", "cu"):
                v_ = g[k_]
                if v_.size and np.all(np.isfinite(v_)) and np.all(v_ == np.round(v_)) and np.all(np.abs(v_) < 2.0**62):
                    g[k_] = v_.astype(np.int64)
        self.given_dtypes = {k_: v_.dtype for k_, v_ in g.items()}
        if um.m > 0:
            super().__init__(g["xl"], g["xu"], cons_lb=g["cl"], cons_ub=g["cu"])
        else:
            super().__init__(g["xl"], g["xu"])
        self.policy = policy or spec.get("policy", "fresh")
        self.fmt = fmt or spec.get("fmt", "coo")
        self.log = log  # callable(event tuple) or None
        self.phase = "construct"  # construct | presolve (inside solve(), before the first trial) | run
        self.armed = False  # transient fault positions count from solve.begin
        self.count = {c: 0 for c in COMPS}  # calls while armed
        self.total = {c: 0 for c in COMPS}  # all calls
        self.faults = list(faults)
        self.fired = []  # (fault index, comp, k, arg bytes, site)
        self.oob = []  # out-of-bounds evaluations: (comp, k, site, arg)
        self.calls = []  # (comp, total index, arg bytes, inbounds, site[0])
        self.memo = {}
        self.const = {}
        self.retained = {}  # policy "retain": comp -> (argument array *reference*, y reference, value)
        self.args_seen = []  # (comp, k, argument array reference, bytes at call time) of the last calls
        self.arg_mutations = []
        self.handed = []  # (comp, object, private deep copy) for the aliasing oracle
        self.track_alias = False
        self.x0_bytes = None
        self.is_const_J = not np.any(um.B)
        self.is_const_H = (not np.any(um.a)) and (not np.any(um.B)) and um.dom is None and um.expo is None

    # ---- fault plan
    def _fault_for(self, comp, k, x):
        for idx, fl in enumerate(self.faults):
            if fl.get("dev") != "eval" or fl.get("comp") != comp:
                continue
            if "corrupt" in fl:
                continue
            if "at" in fl:
                if self.armed and fl["at"] == k:
                    return idx, fl
            elif "region" in fl:
                r = fl["region"]
                if float(np.dot(np.array(r["a"], float), x)) > r["b"]:
                    return idx, fl
            elif fl.get("at_x0"):
                if self.armed and self.x0_bytes is not None and x.tobytes() == self.x0_bytes:
                    return idx, fl
        return None, None

    def _corrupt_for(self, comp):
        for fl in self.faults:
            if fl.get("dev") == "eval" and fl.get("comp") == comp and "corrupt" in fl:
                return fl["corrupt"]
        return None

    @staticmethod
    def _bad(kind):
        return {"nan": np.nan, "inf": np.inf, "-inf": -np.inf}[kind]

    # ---- bookkeeping common to all five callbacks
    def _enter(self, comp, x):
        self.total[comp] += 1
        clk = getattr(self, "clock", None)
        if clk is not None and clk.per_eval:
            clk.t += clk.per_eval  # evaluating the user's functions takes (virtual) time
        if self.armed:
            self.count[comp] += 1
        k = self.count[comp]
        site = call_site(3)
        inb = self.um.in_bounds(x)
        self.calls.append((comp, self.total[comp], x.tobytes(), inb, site[0] if site else "?"))
        if not inb:
            self.oob.append((comp, self.total[comp], tuple(site[:12]), x.copy(), self.phase))
        if self.log is not None:
            self.log(("eval", comp, self.total[comp], x.tobytes(), inb))
        if self.track_alias:
            self._check_handed("call:%s#%d" % (comp, self.total[comp]))
        # a user may keep the array it was called with (memoising on it): the library must not
        # overwrite an argument array it handed to a callback earlier
        for (c0, k0, ref0, b0) in self.args_seen:
            if ref0 is not x and ref0.tobytes() != b0:
                self.arg_mutations.append((c0, k0, comp, self.total[comp]))
            elif ref0 is x and x.tobytes() != b0:
                self.arg_mutations.append((c0, k0, comp, self.total[comp]))
        self.args_seen = [a for a in self.args_seen if a[2] is not x][-5:] + [(comp, self.total[comp], x, x.tobytes())]
        return k, site

    def _note_fired(self, idx, comp, k, x, site):
        self.fired.append((idx, comp, k, x.tobytes(), tuple(site[:12])))
        if self.log is not None:
            self.log(("eval.fault", comp, k, idx))

    # ---- aliasing oracle support (C11)
    @staticmethod
    def _snapshot(v):
        if sp.sparse.issparse(v):
            return v.copy()
        return np.array(v, copy=True)

    @staticmethod
    def _same_value(v, snap):
        try:
            return SimProblem._same_value_(v, snap)
        except Exception:  # noqa
            # the handed-out object can no longer even be read consistently (e.g. its data array
            # was resized under its index arrays): it certainly does not hold its value any more
            return False

    @staticmethod
    def _same_value_(v, snap):
        if sp.sparse.issparse(v):
            if v.shape != snap.shape or v.dtype != snap.dtype:
                return False
            a = sp.sparse.coo_matrix(v).copy()
            b = sp.sparse.coo_matrix(snap).copy()
            a.sum_duplicates()
            b.sum_duplicates()
            a = a.tocsr()
            b = b.tocsr()
            a.sort_indices()
            b.sort_indices()
            return bool(np.array_equal(a.toarray(), b.toarray(), equal_nan=True))
        return bool(v.shape == snap.shape and v.tobytes() == snap.tobytes())

    def _hand_out(self, comp, v):
        if self.track_alias:
            key = id(v)
            ent = self.handed_by_id.get(key)
            if ent is None or ent[1] is not v:
                ent = [comp, v, self._snapshot(v), self.total[comp], 0]
                self.handed_by_id[key] = ent
                self.handed.append(ent)
            ent[4] += 1
        return v

    def _check_handed(self, when, full=False):
        # every call re-checks the most recently handed-out objects (the ones the solver can
        # still be working on); the end of the solve re-checks all of them
        ents = self.handed if full else self.handed[-12:]
        for ent in ents:
            comp, v, snap, k, _ = ent
            if not self._same_value(v, snap):
                self.mutations.append((comp, k, when))
                ent[2] = self._snapshot(v)  # report one mutation once

    mutations = ()

    def given_modified(self):
        um = self.um
        ref = {"xl": um.xl, "xu": um.xu, "cl": um.cl, "cu": um.cu}
        return [k for k, v in self.given.items() if v.dtype != self.given_dtypes[k] or v.shape != ref[k].shape or not np.array_equal(v, ref[k])]

    def start_alias_tracking(self):
        self.track_alias = True
        self.mutations = []
        self.handed = []
        self.handed_by_id = {}

    # ---- return policies
    def _sparse(self, dense):
        if self.spec.get("int_dtype") and np.all(np.isfinite(dense)) and np.all(dense == np.round(dense)):
            # constant matrices written with integer literals come out with an integer dtype
            # (the repository's own Tame test problem does this)
            return sp.sparse.coo_matrix(np.asarray(dense).astype(np.int64)).asformat(self.fmt)
        M = sp.sparse.coo_matrix(dense)
        if self.spec.get("xzeros"):
            # a fixed sparsity pattern: some structurally possible entries are stored although
            # their value is zero at this point
            D = np.asarray(dense)
            zr, zc = np.nonzero(D == 0)
            if zr.size:
                pick = [0, zr.size // 2] if zr.size > 1 else [0]
                M = sp.sparse.coo_matrix((np.concatenate([M.data, np.zeros(len(pick), dtype=M.data.dtype)]), (np.concatenate([M.row, zr[pick]]), np.concatenate([M.col, zc[pick]]))), shape=M.shape)
        if self.spec.get("dup") and self.fmt == "coo" and M.nnz > 0:
            # a COO matrix assembled from concatenated contributions: some positions occur twice,
            # the entry is the (exact) sum of the two halves
            k2 = max(1, M.nnz // 2)
            half = M.data[:k2] * 0.5
            data = np.concatenate([half, M.data[k2:], half])
            row = np.concatenate([M.row, M.row[:k2]])
            col = np.concatenate([M.col, M.col[:k2]])
            M = sp.sparse.coo_matrix((data, (row, col)), shape=M.shape)
        if self.spec.get("shuffle") and self.fmt == "coo" and M.nnz > 1:
            # COO triplets may come in any order (e.g. assembled from a dict); the order changes
            # from call to call while pattern and values stay the same
            # the order is a function of the values only (state-free: the same call returns the same
            # triplet order whatever happened before, so twin runs see the same device)
            h = int(np.frombuffer(np.ascontiguousarray(M.data).tobytes(), dtype=np.uint8).astype(np.int64).sum())
            k = h % M.nnz
            idx = np.r_[k : M.nnz, 0:k]
            if (h // 7) % 2:
                idx = idx[::-1]
            M = sp.sparse.coo_matrix((M.data[idx], (M.row[idx], M.col[idx])), shape=M.shape)
        return M.asformat(self.fmt)

    def _deliver(self, comp, key, make, const=False, args=None):
        pol = self.policy
        if pol == "retain" and args is not None:
            # memoisation on the *retained argument array* (no copy): correct as long as the library
            # never overwrites an array it passed to a callback
            last = self.retained.get(comp)
            if last is not None and all(np.array_equal(a, b) for a, b in zip(last[0], args)):
                return self._hand_out(comp, last[1])
            v = make()
            self.retained[comp] = (tuple(args), v)
            return self._hand_out(comp, v)
        if pol == "cached" and const:
            if comp not in self.const:
                self.const[comp] = make()
            return self._hand_out(comp, self.const[comp])
        if pol == "memo":
            kk = (comp, key)
            if kk not in self.memo:
                self.memo[kk] = make()
            return self._hand_out(comp, self.memo[kk])
        return self._hand_out(comp, make())

    # ---- the five callbacks
    def obj(self, x):
        k, site = self._enter("obj", x)
        idx, fl = self._fault_for("obj", k, x)
        if fl is not None:
            self._note_fired(idx, "obj", k, x, site)
            return float(self._bad(fl.get("kind", "nan")))
        if self.policy == "retain":
            last = self.retained.get("obj")
            if last is not None and np.array_equal(last[0][0], x):
                return last[1]
            v = self.um.f(x)
            self.retained["obj"] = ((x,), v)
            return v
        return self.um.f(x)

    def obj_grad(self, x):
        k, site = self._enter("grad", x)
        idx, fl = self._fault_for("grad", k, x)
        cor = self._corrupt_for("grad")
        if fl is not None:
            self._note_fired(idx, "grad", k, x, site)
            g = self.um.g(x).copy()
            g[fl.get("pos", -1) % max(g.size, 1)] = self._bad(fl.get("kind", "nan"))
            return g
        if cor is not None:
            g = self.um.g(x).copy()
            if cor.get("drop"):
                g[cor["col"]] = 0.0
            else:
                g[cor["col"]] += cor["delta"]
            return g
        return self._deliver("grad", x.tobytes(), lambda: self.um.g(x), args=(x,))

    def cons(self, x):
        k, site = self._enter("cons", x)
        idx, fl = self._fault_for("cons", k, x)
        if fl is not None:
            self._note_fired(idx, "cons", k, x, site)
            c = self.um.c(x).copy()
            if c.size:
                c[fl.get("pos", -1) % c.size] = self._bad(fl.get("kind", "nan"))
            return c
        return self._deliver("cons", x.tobytes(), lambda: self.um.c(x), args=(x,))

    def _faulty_sparse(self, dense, fl):
        # one explicit non-finite entry even when the matrix is structurally empty
        M = sp.sparse.coo_matrix(dense)
        r, c_, d = list(M.row), list(M.col), list(M.data)
        bad = self._bad(fl.get("kind", "nan"))
        if d:
            d[fl.get("pos", 0) % len(d)] = bad
        else:
            r.append(0)
            c_.append(0)
            d.append(bad)
        return sp.sparse.coo_matrix((d, (r, c_)), shape=dense.shape).asformat(self.fmt)

    def _corrupt_sparse(self, dense, cor):
        D = np.array(dense, copy=True)
        if cor.get("drop"):
            D[cor["row"], cor["col"]] = 0.0  # the entry is left out of the sparsity pattern
        else:
            D[cor["row"], cor["col"]] += cor["delta"]
        if cor.get("sym") and cor["row"] != cor["col"]:
            D[cor["col"], cor["row"]] += cor["delta"]
        return self._sparse(D)

    def cons_jac(self, x):
        k, site = self._enter("jac", x)
        idx, fl = self._fault_for("jac", k, x)
        cor = self._corrupt_for("jac")
        if fl is not None:
            self._note_fired(idx, "jac", k, x, site)
            return self._faulty_sparse(self.um.J(x), fl)
        if cor is not None:
            return self._corrupt_sparse(self.um.J(x), cor)
        return self._deliver("jac", x.tobytes(), lambda: self._sparse(self.um.J(x)), const=self.is_const_J, args=(x,))

    def lag_hess(self, x, y):
        k, site = self._enter("hess", x)
        idx, fl = self._fault_for("hess", k, x)
        cor = self._corrupt_for("hess")
        if fl is not None:
            self._note_fired(idx, "hess", k, x, site)
            return self._faulty_sparse(self.um.H(x, y), fl)
        if cor is not None:
            if "wrong_y" in cor:
                # a user bug in the constraint-curvature part only: the multiplier is mis-scaled
                return self._sparse(self.um.H(x, cor["wrong_y"] * np.asarray(y, float)))
            return self._corrupt_sparse(self.um.H(x, y), cor)
        return self._deliver(
            "hess", x.tobytes() + np.asarray(y, float).tobytes(), lambda: self._sparse(self.um.H(x, y)), const=self.is_const_H, args=(x, y)
        )


# --------------------------------------------------------------------------
# linear solver device


class LinDevice:
    """Class-level proxy over the linear solver classes that import here.
    Logs every factorisation and solve; fails the k-th one on request."""

    def __init__(self):
        self.installed = False
        self.reset()

    def reset(self, faults=(), log=None):
        self.n_factor = 0
        self.n_solve = 0
        self.n_obs_solve = 0
        self.faults = [f for f in faults if f.get("dev") == "lin"]
        self.fired = []  # (op, k, site)
        self.log = log
        self.nonfinite_returns = 0
        self.n_inner = {"gmres": 0, "minres": 0, "splu": 0}
        self.inner_reports = []  # failures the underlying scipy routine itself reported: (op, k, observer?)

    def _install_inner(self):
        """Third layer: the scipy routines the wrappers call (looked up as attributes of scipy.sparse.linalg at call
        time).  Records what they really report and can make the k-th call report non-convergence / a singular
        factorisation the way scipy does (info > 0 with an unconverged vector; RuntimeError from splu)."""
        import scipy.sparse.linalg as spl

        dev = self

        def _from_library():
            site = call_site(3)
            return bool(site), site_has(site, "estimate_rcond")

        def _wanted(op, k):
            for f in dev.faults:
                if f.get("op") == "inner_" + op and f.get("at") == k:
                    return True
            return False

        def wrap_iter(name):
            orig = getattr(spl, name)

            def proxy(A, b, *a, **kw):
                lib, observer = _from_library()
                if not lib:
                    return orig(A, b, *a, **kw)
                k = 0
                if not observer:
                    dev.n_inner[name] += 1
                    k = dev.n_inner[name]
                sol, info = orig(A, b, *a, **kw)
                if not observer and _wanted(name, k):
                    dev.fired.append(("inner_" + name, k, tuple(call_site(2)[:8])))
                    if dev.log is not None:
                        dev.log(("lin.fault", "inner_" + name, k))
                    # what scipy hands back when it gives up: the current (useless) iterate and info > 0
                    return np.asarray(sol) * 0.5 + 1.0, max(1, int(np.size(b)))
                if info != 0:
                    dev.inner_reports.append((name, k, observer))
                return sol, info

            proxy._sim_orig = orig
            setattr(spl, name, proxy)

        def wrap_splu():
            orig = spl.splu

            def proxy(A, *a, **kw):
                lib, observer = _from_library()
                if not lib:
                    return orig(A, *a, **kw)
                k = 0
                if not observer:
                    dev.n_inner["splu"] += 1
                    k = dev.n_inner["splu"]
                if not observer and _wanted("splu", k):
                    dev.fired.append(("inner_splu", k, tuple(call_site(2)[:8])))
                    if dev.log is not None:
                        dev.log(("lin.fault", "inner_splu", k))
                    raise RuntimeError("Factor is exactly singular")
                try:
                    return orig(A, *a, **kw)
                except RuntimeError:
                    dev.inner_reports.append(("splu", k, observer))
                    raise

            proxy._sim_orig = orig
            spl.splu = proxy

        if not hasattr(spl.gmres, "_sim_orig"):
            wrap_iter("gmres")
            wrap_iter("minres")
            wrap_splu()

    def install(self):
        self._install_inner()
        if self.installed:
            return
        from pygradflow.linear_solver.gmres_solver import GMRESSolver
        from pygradflow.linear_solver.linear_solver import LinearSolverError
        from pygradflow.linear_solver.lu_solver import LUSolver
        from pygradflow.linear_solver.minres_solver import MINRESSolver

        dev = self
        self.classes = (LUSolver, GMRESSolver, MINRESSolver)

        def wrap(cls):
            orig_init, orig_solve = cls.__init__, cls.solve

            def __init__(self, mat, *a, **kw):
                dev.n_factor += 1
                k = dev.n_factor
                if dev.log is not None:
                    dev.log(("lin.factor", k, int(mat.shape[0]), int(mat.nnz)))
                for f in dev.faults:
                    if f.get("op") == "factor" and f.get("at") == k:
                        dev.fired.append(("factor", k, tuple(call_site(2)[:8])))
                        if dev.log is not None:
                            dev.log(("lin.fault", "factor", k))
                        raise LinearSolverError("injected factorisation failure")
                orig_init(self, mat, *a, **kw)

            def solve(self, rhs, *a, **kw):
                site = call_site(2)
                observer = site_has(site, "estimate_rcond")
                if observer:
                    dev.n_obs_solve += 1
                    k = dev.n_obs_solve
                    op = "obs_solve"
                else:
                    dev.n_solve += 1
                    k = dev.n_solve
                    op = "solve"
                if dev.log is not None:
                    dev.log(("lin." + op, k, np.asarray(rhs).tobytes()))
                for f in dev.faults:
                    if f.get("op") == op and f.get("at") == k:
                        dev.fired.append((op, k, tuple(site[:12])))
                        if dev.log is not None:
                            dev.log(("lin.fault", op, k))
                        raise LinearSolverError("injected solve failure")
                sol = orig_solve(self, rhs, *a, **kw)
                if not np.isfinite(sol).all():
                    dev.nonfinite_returns += 1
                return sol

            cls.__init__ = __init__
            cls.solve = solve

        for c in self.classes:
            wrap(c)
        self.installed = True


LIN = LinDevice()
