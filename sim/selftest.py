"""Self-tests of the machinery.

selftest-determinism : every profile's worlds are executed (a) twice in forked
  children of this process at 16 workers, (b) in a fresh interpreter with a
  different PYTHONHASHSEED at 1 worker (subset), and the digests of the complete
  case results (all violations, statistics, keys, samples) plus the full event-log
  digest of the base world must agree pairwise.
"""
import hashlib
import importlib
import json
import os
import subprocess
import sys
import time

from . import engine
from .gen import rng_for
from .util import canon, dumps

ALL = ["C01", "C02", "C03", "C04", "C05", "C06", "C07", "C08", "C09", "C10", "C11", "C12", "C15", "C16", "C18", "C19"]


def available():
    mods = []
    for p in ALL:
        try:
            mods.append(importlib.import_module("sim.props." + p))
        except ModuleNotFoundError:
            pass
    return mods


def _job(arg):
    pid, world = arg
    mod = importlib.import_module("sim.props." + pid)
    payload = mod.case(world)
    payload = dict(payload)
    h = hashlib.sha256(canon(payload).encode()).hexdigest()
    full = None
    if hasattr(mod, "base_digest"):
        full = mod.base_digest(world)
    else:
        from .runner import execute

        if world.get("problem") is not None:
            full = execute(world).full_digest()
    return {"case": h, "full": full}


def compute(n_per, seed, workers, tier="quick", props=None):
    jobs = []
    for mod in available():
        if props and mod.ID not in props:
            continue
        for i in range(n_per):
            w = mod.generate(rng_for(seed, mod.ID, i), seed, i, tier)
            w = json.loads(dumps(w))
            if "max_points" in (w.get("case") or {}):
                w["case"]["max_points"] = 6
            jobs.append((mod.ID, w))
    res = {}
    for (idx, kind, payload) in engine.run_forked(_job, jobs, workers=workers, limit=120.0):
        key = "%s#%d" % (jobs[idx][0], jobs[idx][1]["index"])
        res[key] = payload if kind == "ok" else {"case": kind, "full": str(payload)[-300:]}
    return res


def main(name, args):
    if name == "selftest-determinism":
        n = args.worlds or 12
        seed = args.seed if args.seed is not None else int(os.environ.get("VERIF_SEED") or 7)
        t0 = time.time()
        a = compute(n, seed, 16)
        b = compute(n, seed, 5)
        env = dict(os.environ)
        env["PYTHONHASHSEED"] = "12345"
        sub = max(2, n // 3)
        out = subprocess.run(
            [sys.executable, "-m", "sim.selftest", str(sub), str(seed)], env=env, capture_output=True, text=True, timeout=3000
        )
        if out.returncode != 0:
            print(out.stdout[-2000:], out.stderr[-2000:])
            print("HARNESS: fresh-interpreter run failed")
            return 3
        c = json.loads(out.stdout.strip().splitlines()[-1])
        bad = 0
        errs = 0
        for k in sorted(a):
            if a[k]["case"] in ("error", "timeout"):
                errs += 1
                print("harness problem in", k, a[k])
            if a[k] != b.get(k):
                bad += 1
                print("NONDETERMINISTIC (same interpreter, 16 vs 5 workers):", k, a[k], b.get(k))
            if k in c and a[k] != c[k]:
                bad += 1
                print("NONDETERMINISTIC (fresh interpreter, PYTHONHASHSEED=12345, 1 worker):", k, a[k], c[k])
        print("determinism: %d case digests x 2 runs + %d in a fresh interpreter; mismatches=%d harness_errors=%d wall=%.1fs" % (len(a), len(c), bad, errs, time.time() - t0))
        return 3 if (bad or errs) else 0
    print("unknown selftest", name)
    return 3


if __name__ == "__main__":
    n, seed = int(sys.argv[1]), int(sys.argv[2])
    r = compute(n, seed, 1)
    print(dumps(r))
