"""History invariants evaluated over the recorded log of one execution
(C12 counters/callbacks/path, C15 step-size control, C16 penalty, C18-B live filter)."""
import math

import numpy as np

from .devices import site_has
from .props.common import V, chain_accept, same_point
from .util import EPS


def _final_flags(ex):
    """Per completed trial: finally accepted?  Truth = recorded penalty verdict
    (controller verdict AND not vetoed)."""
    out = []
    for tr in ex.trials:
        if tr.exc is not None:
            out.append(False)
        elif not tr.accepted:
            out.append(False)
        else:
            fa = tr.final_accept()
            out.append(True if fa is None else bool(fa))
    return out


# ---------------------------------------------------------------- C12
def check_C12(ex, sub=None):
    P = "C12"
    out = []
    T = ex.trials
    K = ex.cbs
    r = ex.result
    fin = _final_flags(ex)
    ctx = {}
    if r is None:
        # deliberate step-size error is raised after the step, before the callback
        # whether the last step is still announced before the deliberate error is raised is the code's business
        if ex.outcome == "deliberate:Inverse step size" and len(K) not in (len(T) - 1, len(T)):
            out.append(V(P, "callback-count", "%d callbacks for %d trials in a run ending with the step-size error" % (len(K), len(T)), sub, ctx))
        return out
    if not (len(K) == len(T) == r.iterations):
        out.append(V(P, "callback-count", "callbacks=%d trials=%d iterations=%d" % (len(K), len(T), r.iterations), sub, ctx))
        return out
    rt = ex.ref_transform()
    for t, (tr, cb) in enumerate(zip(T, K)):
        if not same_point(cb[0], tr.inp) or not same_point(cb[1], tr.out):
            out.append(V(P, "callback-args", "callback %d was not given the iterates of trial %d" % (t, t), sub, {"t": t}))
            break
        if cb[2] != tr.accepted:
            out.append(V(P, "callback-args", "callback %d reports accept=%s, controller verdict was %s" % (t, cb[2], tr.accepted), sub, {"t": t}))
            break
    if T:
        xi, yi = rt.to_internal(ex.x0, ex.y0)
        if T[0].inp.x.tobytes() != xi.tobytes() or T[0].inp.y.tobytes() != yi.tobytes():
            out.append(V(P, "first-step-start", "the first announced step does not start from the transformed x0/y0", sub, {"t": 0}))
    for t in range(len(T) - 1):
        nxt = T[t + 1].inp
        if fin[t]:
            if not same_point(nxt, T[t].out):
                out.append(V(P, "chain", "step %d was accepted but step %d does not start from its result" % (t, t + 1), sub, {"t": t}))
                break
        else:
            if not same_point(nxt, T[t].inp):
                out.append(V(P, "chain", "step %d was not accepted but step %d starts from a different point" % (t, t + 1), sub, {"t": t}))
                break
    nacc = sum(1 for f in fin if f)
    if r.num_accepted_steps != nacc:
        out.append(V(P, "accepted-count", "num_accepted_steps=%d, the iterate changed %d times" % (r.num_accepted_steps, nacc), sub, ctx))
    # final solution = last accepted point
    cur = T[0].inp if T else None
    for t, tr in enumerate(T):
        if fin[t]:
            cur = tr.out
    if cur is not None:
        x, y, d = rt.to_user(cur.x, cur.y, cur.bounds_dual)
        if x.tobytes() != r.x.tobytes() or y.tobytes() != r.y.tobytes() or d.tobytes() != r.d.tobytes():
            out.append(V(P, "final-solution", "returned x/y/d are not the last accepted point", sub, ctx))
    elif r.iterations == 0:
        xi, yi = rt.to_internal(ex.x0, ex.y0)
        x, y, _ = rt.to_user(xi, yi, np.zeros_like(xi))
        if x.tobytes() != r.x.tobytes() or y.tobytes() != r.y.tobytes():
            out.append(V(P, "final-solution", "zero-iteration run does not return the starting point", sub, ctx))
    if not (math.isfinite(r.dist_factor) and r.dist_factor >= 1.0 - 1e-9):
        out.append(V(P, "dist-factor", "dist_factor=%r" % (r.dist_factor,), sub, ctx))
    if ex.params.collect_path:
        path, times = r.path, r.model_times
        nint = rt.N + rt.um.m
        if path is None or times is None or path.shape != (nint, nacc + 1) or times.shape != (nacc + 1,):
            out.append(V(P, "path-shape", "path shape %s / times %s, expected (%d, %d)" % (None if path is None else path.shape, None if times is None else times.shape, nint, nacc + 1), sub, ctx))
        else:
            cols = []
            dts = []
            if T:
                cols.append(np.concatenate([T[0].inp.x, T[0].inp.y]))
            else:
                xi, yi = rt.to_internal(ex.x0, ex.y0)
                cols.append(np.concatenate([xi, yi]))
            for t, tr in enumerate(T):
                if fin[t]:
                    cols.append(np.concatenate([tr.out.x, tr.out.y]))
                    dts.append(tr.dt)
            for i, c in enumerate(cols):
                if path[:, i].tobytes() != c.tobytes():
                    out.append(V(P, "path-columns", "path column %d is not the %d-th accepted point" % (i, i), sub, ctx))
                    break
            if times[0] != 0.0:
                out.append(V(P, "model-times", "model_times[0]=%r" % (times[0],), sub, ctx))
            for i, dt in enumerate(dts):
                inc = times[i + 1] - times[i]
                S = abs(times[i + 1]) + abs(times[i]) + abs(dt)
                if not abs(inc - dt) <= 64 * EPS * S:
                    out.append(V(P, "model-times", "model time advanced by %r at accepted step %d, the step size used was %r" % (float(inc), i + 1, dt), sub, ctx))
                    break
            else:
                acc_tr_ = [tr for t, tr in enumerate(T) if fin[t]]
                for i, tr in enumerate(acc_tr_):
                    if tr.used:
                        du = tr.used[-1][0]
                        inc = float(times[i + 1] - times[i])
                        if not abs(inc - du) <= 64 * EPS * (abs(times[i + 1]) + abs(times[i]) + abs(du)):
                            out.append(V(P, "model-times", "model time advanced by %r at accepted step %d, its step equations were built with step size %r" % (inc, i + 1, du), sub, ctx))
                            break
                # "the step size used": under exact control an accepted point solves the implicit-Euler
                # equation of the flow for the step size that was *really* used; the recorded model time
                # increment must be that step size (independent of what was passed down the call chain)
                if ex.params.step_control_type.name == "Exact" and len(dts) >= 1:
                    acc_tr = [tr for t, tr in enumerate(T) if fin[t]]
                    for i, tr in enumerate(acc_tr):
                        inc = float(times[i + 1] - times[i])
                        if not (inc > 0.0 and math.isfinite(inc)):
                            continue
                        F = rt.flow_residual(tr.out.x, tr.out.y, tr.inp.x, tr.inp.y, inc, tr.rho)
                        nrm = float(np.linalg.norm(F))
                        allow = ex.params.newton_tol * (1 + 1e-9) + 1e-8 * math.sqrt(rt.N) + flow_rounding(rt, tr.out.x, tr.out.y, tr.inp.x, tr.inp.y, inc, tr.rho) + 64 * EPS * S
                        if not nrm <= allow:
                            out.append(V(P, "model-times-flow", "accepted step %d under exact control: the recorded model-time increment %r is not the step size the point was computed with (implicit-Euler residual %r > %r)" % (i + 1, inc, nrm, allow), sub, ctx))
                            break
    elif r.path is not None:
        out.append(V(P, "path-shape", "a path was returned although collect_path is off", sub, ctx))
    return out


# ---------------------------------------------------------------- C15
def flow_rounding(rt, zx, zy, hx_, hy_, dt, rho):
    c = rt.c(zx)
    J = rt.J(zx)
    g = rt.g(zx)
    Sx = np.abs(zx) + np.abs(hx_) + dt * (np.abs(g) + np.abs(J).T @ (rho * np.abs(c) + np.abs(zy)))
    Sy = np.abs(zy) + np.abs(hy_) + dt * np.abs(c)
    return 64 * EPS * float(np.linalg.norm(np.concatenate([Sx, Sy])))


def check_C15(ex, sub=None):
    P = "C15"
    out = []
    T = ex.trials
    prm = ex.params
    lamb_max = prm.lamb_max
    exact = prm.step_control_type.name == "Exact"
    rt = None
    for t, tr in enumerate(T):
        ctx = {"t": t}
        if tr.exc is not None:
            continue
        last = t == len(T) - 1
        if t + 1 < len(T):
            nx = T[t + 1]
            if nx.dt != 1.0 / tr.lamb:
                out.append(V(P, "lambda-chain", "trial %d uses dt=%r although trial %d returned lambda=%r" % (t + 1, nx.dt, t, tr.lamb), sub, ctx))
                break
            if not tr.accepted and not same_point(nx.inp, tr.inp):
                out.append(V(P, "iterate-moved", "trial %d was rejected/failed but trial %d starts from another point" % (t, t + 1), sub, ctx))
                break
        if tr.used:
            # the step equations of this trial, as built through the public step-solver hook
            bad = [u for u in tr.used if u[0] != tr.dt]
            if bad:
                out.append(V(P, "dt-used", "trial %d was started with step size %r (1/lambda returned by the previous trial) but its step equations were built with %r" % (t, tr.dt, bad[0][0]), sub, ctx))
                break
        if not tr.accepted:
            if not tr.lamb > 1.0 / tr.dt:
                out.append(V(P, "no-shrink", "trial %d was rejected/failed at lambda=%r but returned lambda=%r" % (t, 1.0 / tr.dt, tr.lamb), sub, ctx))
                break
        if tr.lamb >= lamb_max:
            # no trial is computed once the value has reached its maximum: the solve stops there, with the
            # dedicated error - or with a limit status when the step was cut short by the deadline or the
            # budget ends at the same moment
            if not last or not (ex.outcome == "deliberate:Inverse step size" or ex.outcome in ("status:TimeLimit", "status:IterationLimit")):
                out.append(V(P, "lamb-max", "trial %d returned lambda=%r >= lamb_max=%r but the solve went on (%s)" % (t, tr.lamb, lamb_max, ex.outcome), sub, ctx))
                break
        if t > 0 and not (1.0 / tr.dt) < lamb_max * (1 + 4 * EPS):
            out.append(V(P, "lamb-max", "trial %d was computed at inverse step size %r >= lamb_max" % (t, 1.0 / tr.dt), sub, ctx))
            break
        if tr.accepted:
            if rt is None:
                rt = ex.ref_transform()
            x = tr.out.x
            if (x < rt.lb).any() or (x > rt.ub).any():
                out.append(V(P, "left-box", "accepted step %d leaves the box" % t, sub, ctx))
                break
            if exact:
                F = rt.flow_residual(tr.out.x, tr.out.y, tr.inp.x, tr.inp.y, tr.dt, tr.rho)
                nrm = float(np.linalg.norm(F))
                allow = prm.newton_tol * (1 + 1e-9) + 1e-8 * math.sqrt(rt.N) + flow_rounding(rt, tr.out.x, tr.out.y, tr.inp.x, tr.inp.y, tr.dt, tr.rho)
                if not nrm <= allow:
                    out.append(V(P, "exact-residual", "accepted step %d under exact control has implicit-Euler residual %r > %r" % (t, nrm, allow), sub, ctx))
                    break
    return out


# ---------------------------------------------------------------- C16
def check_C16(ex, sub=None):
    P = "C16"
    out = []
    T = ex.trials
    prm = ex.params
    pol = prm.penalty_update.name
    fin = _final_flags(ex)
    ymax = 0.0
    have_y = False
    # "its initial value" = the penalty the first trial step used (what the policy starts from is
    # the code's business; the property constrains how it evolves)
    rho0 = T[0].rho if T else prm.rho
    for t, tr in enumerate(T):
        ctx = {"t": t, "policy": pol}
        rho = tr.rho
        if not (rho > 0.0):
            out.append(V(P, "positive", "trial %d used penalty %r" % (t, rho), sub, ctx))
            break
        if t > 0:
            prev = T[t - 1].rho
            if rho < prev:
                out.append(V(P, "monotone", "penalty decreased from %r to %r at trial %d" % (prev, rho, t), sub, ctx))
                break
            if pol == "DualNorm" and rho != prev and not fin[t - 1]:
                # "raised by at most a factor of ten per accepted step": no accepted step, no raise.
                # (Only stated for the dual-norm policy; other policies may legitimately adopt a
                # raised penalty after a vetoed step.)
                out.append(V(P, "dualnorm-raise-without-accept", "penalty changed %r -> %r although step %d was not accepted" % (prev, rho, t - 1), sub, ctx))
                break
            if pol == "DualNorm" and rho > 10.0 * prev * (1 + 4 * EPS):
                out.append(V(P, "dualnorm-growth", "penalty grew %r -> %r (more than tenfold) at trial %d" % (prev, rho, t), sub, ctx))
                break
        if tr.used and any(u[1] != rho for u in tr.used):
            u = [u for u in tr.used if u[1] != rho][0]
            out.append(V(P, "penalty-used", "trial %d was started with penalty %r but its step equations were built with %r" % (t, rho, u[1]), sub, ctx))
            break
        if pol == "Constant" and rho != rho0:
            out.append(V(P, "constant", "constant policy but trial %d used %r, the first trial used %r" % (t, rho, rho0), sub, ctx))
            break
        if pol == "DualNorm":
            bound = max(rho0, ymax) if have_y else rho0
            if rho > bound * (1 + 4 * EPS):
                out.append(V(P, "dualnorm-bound", "penalty %r at trial %d exceeds max(initial %r, largest accepted multiplier norm %r)" % (rho, t, rho0, ymax), sub, ctx))
                break
        # (solver.rho as seen from a callback is recorded in the trial log but not judged: the property
        # is about the penalty the trial steps *use*; when the attribute is updated is the code's business)
        if tr.exc is None and fin[t] and tr.out.y.size:
            ymax = max(ymax, float(np.abs(tr.out.y).max()))
            have_y = True
        elif tr.exc is None and fin[t]:
            have_y = True
    return out


# ---------------------------------------------------------------- C18 (in situ)
def check_C18_live(ex, sub=None):
    P = "C18"
    out = []
    prev_rho = None
    n_updates = 0
    last_after = None
    for t, tr in enumerate(ex.trials):
        if tr.filter_after is None or tr.penalty is None:
            continue
        ents, frho = tr.filter_after
        n_updates += 1
        ctx = {"t": t}
        if any(not (math.isfinite(a) and math.isfinite(b)) for (a, b) in ents):
            return out  # non-finite pairs are outside the property (finite sequences)
        for i, (a, b) in enumerate(ents):
            for j, (c, d) in enumerate(ents):
                if i != j and a <= c and b <= d:
                    out.append(V(P, "live-dominated", "after trial %d the live filter holds (%r,%r) dominated by (%r,%r)" % (t, c, d, a, b), sub, ctx))
                    return out
        vetoed = not tr.penalty[1]
        if tr.filter_before is not None:
            # one step of the reference set model from the state the live filter was in
            b_ents, b_rho, pair = tr.filter_before
            if last_after is not None and (sorted(b_ents) != sorted(last_after[0]) or b_rho != last_after[1]):
                # between two of its own operations nobody else changes the filter
                out.append(V(P, "live-continuity", "before trial %d the live filter holds %d entries / penalty %r, after its previous operation it held %d / %r" % (t, len(b_ents), b_rho, len(last_after[0]), last_after[1]), sub, ctx))
                return out
            if all(math.isfinite(v) for v in pair) and all(math.isfinite(a) and math.isfinite(b) for (a, b) in b_ents):
                refuse = any(a <= pair[0] and b <= pair[1] for (a, b) in b_ents)
                if refuse != vetoed:
                    out.append(V(P, "live-verdict", "trial %d: the pair %r was %s although a stored entry at least as good in both coordinates %s" % (t, pair, "refused" if vetoed else "accepted", "exists" if refuse else "does not exist"), sub, ctx))
                    return out
                exp = list(b_ents) if refuse else [e for e in b_ents if not (pair[0] <= e[0] and pair[1] <= e[1])] + [pair]
                if sorted((float(a), float(b)) for (a, b) in ents) != sorted((float(a), float(b)) for (a, b) in exp):
                    out.append(V(P, "live-entries", "trial %d: after the pair %r the live filter holds %r, the reference model %r" % (t, pair, sorted(ents)[:5], sorted(exp)[:5]), sub, ctx))
                    return out
                if frho != (b_rho * 10.0 if refuse else b_rho):
                    out.append(V(P, "live-rho", "trial %d: the filter's penalty went %r -> %r on %s" % (t, b_rho, frho, "refusal" if refuse else "acceptance"), sub, ctx))
                    return out
        if vetoed:
            # "a refused point ... vetoes the step": the solver does not move to it
            nxt = ex.trials[t + 1] if t + 1 < len(ex.trials) else None
            if nxt is not None and not same_point(nxt.inp, tr.inp):
                out.append(V(P, "live-veto", "trial %d was refused by the filter, yet trial %d starts from another point" % (t, t + 1), sub, ctx))
                return out
            if nxt is None and ex.result is not None and not same_point(tr.out, tr.inp):
                rt_ = ex.ref_transform()
                xr, yr, _ = rt_.to_user(tr.out.x, tr.out.y, np.zeros_like(tr.out.x))
                if np.shape(xr) == np.shape(ex.result.x) and xr.tobytes() == ex.result.x.tobytes() and yr.tobytes() == ex.result.y.tobytes():
                    out.append(V(P, "live-veto", "the last trial (%d) was refused by the filter, yet its point is what the solve returned" % t, sub, ctx))
                    return out
        if prev_rho is not None:
            if vetoed and frho != prev_rho * 10.0:
                out.append(V(P, "live-rho", "veto at trial %d but the filter's penalty went %r -> %r" % (t, prev_rho, frho), sub, ctx))
                return out
            if not vetoed and frho != prev_rho:
                out.append(V(P, "live-rho", "acceptance at trial %d changed the filter's penalty %r -> %r" % (t, prev_rho, frho), sub, ctx))
                return out
        prev_rho = frho
        last_after = (list(ents), frho)
    return out


# ---------------------------------------------------------------- C05
EXEMPT_SITES = ("deriv_check", "_deriv_check", "create_scaling")


def check_C05(ex, sub=None):
    P = "C05"
    out = []
    um = ex.problem.um
    seen = set()
    plumbing = ("SimpleEvaluator", "ValidatingEvaluator", "Evaluator", "Iterate", "ScaledProblem", "ConstrainedProblem", "ImplicitFunc", "ScaledImplicitFunc", "StepFunc", "StateData")
    deriv_on = ex.params is not None and ex.params.deriv_check.name != "NoCheck"
    for (comp, k, site, arg, phase) in ex.problem.oob:
        # the two stated exemptions, recognised by *when* the call happens (robust against renaming)
        # and, as a fall-back, by the issuing function's name:
        #   evaluation at the user-supplied scaling point = any call before solve() begins;
        #   opt-in derivative check = calls inside solve() before the first trial step while it is on
        if phase == "construct" or (phase == "presolve" and deriv_on):
            continue
        if any(site_has(site, s) for s in EXEMPT_SITES):
            continue
        # attribute to the innermost algorithmic function below the evaluator / iterate plumbing
        where = next((q for q in site if q.split(".")[0] not in plumbing and "<lambda>" not in q and "<locals>" not in q), site[0] if site else "?")
        key = (comp, where)
        if key in seen:
            continue
        seen.add(key)
        j = int(np.argmax((arg < um.xl) | (arg > um.xu)))
        out.append(V(P, "evaluation-outside-bounds", "%s evaluated at x[%d]=%r outside [%r, %r] (issued from %s)" % (comp, j, float(arg[j]), float(um.xl[j]), float(um.xu[j]), where), sub, {"site": where, "comp": comp}, sig_extra=where))
    if ex.cbs:
        rt = ex.ref_transform()
        for t, cb in enumerate(ex.cbs):
            for which, it in (("iterate", cb[0]), ("next_iterate", cb[1])):
                if (it.x < rt.lb).any() or (it.x > rt.ub).any():
                    out.append(V(P, "callback-iterate-outside-bounds", "callback %d: %s violates the (internal) variable bounds" % (t, which), sub, {"t": t}))
                    return out
    if ex.result is not None:
        x = ex.result.x
        if np.shape(x) != um.xl.shape:
            out.append(V(P, "result-outside-bounds", "returned x has shape %s, the problem has %d variables (not a point of the user's problem)" % (np.shape(x), um.n), sub, {}))
        elif (x < um.xl).any() or (x > um.xu).any():
            out.append(V(P, "result-outside-bounds", "returned x violates the variable bounds", sub, {}))
    return out
