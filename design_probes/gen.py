import numpy as np, scipy as sp, sys
import os; sys.path.insert(0,os.environ.get('PGF','/repo'))
from pygradflow.problem import Problem
from pygradflow.params import *
from pygradflow.scale import Scaling

class GenProblem(Problem):
    """f(x) = 0.5 x'Qx + q'x + sum_k a_k * phi_k(x_k) ;  c_i(x) = A x + 0.5*sum_j B_ij x_j^2 (+ bilinear)"""
    def __init__(self, spec):
        self.s = spec
        super().__init__(spec['xl'], spec['xu'], cons_lb=spec['cl'], cons_ub=spec['cu']) if spec['m']>0 else super().__init__(spec['xl'], spec['xu'])
        self.fmt = spec.get('fmt','coo')
    def obj(self,x):
        s=self.s; return float(0.5*x@s['Q']@x + s['q']@x + (s['a']*x**4).sum()/4)
    def obj_grad(self,x):
        s=self.s; return s['Q']@x + s['q'] + s['a']*x**3
    def cons(self,x):
        s=self.s; return s['A']@x + 0.5*s['B']@(x*x) - s['b']
    def cons_jac(self,x):
        s=self.s; J = s['A'] + s['B']*x[None,:]
        return sp.sparse.coo_matrix(J).asformat(self.fmt)
    def lag_hess(self,x,y):
        s=self.s; H = s['Q'] + np.diag(3*s['a']*x*x)
        if s['m']>0: H = H + np.diag(s['B'].T@y)
        return sp.sparse.coo_matrix(H).asformat(self.fmt)

def gen_spec(rng, kind=None):
    n = int(rng.integers(1,6)); m = int(rng.integers(0,4))
    kind = kind or rng.choice(['qp','nlp','infeas','unbdd','degenerate'])
    M = rng.normal(size=(n,n)); Q = M@M.T + 0.5*np.eye(n)
    if kind=='unbdd': Q = np.zeros((n,n))
    if kind=='degenerate': Q = M[:, :1]@M[:, :1].T
    q = rng.normal(size=n)*2
    a = np.zeros(n) if kind in('qp','unbdd','degenerate') else np.abs(rng.normal(size=n))*rng.integers(0,2,size=n)
    A = rng.normal(size=(m,n))*(rng.random((m,n))<0.7)
    B = np.zeros((m,n)) if kind in ('qp','unbdd','degenerate') else rng.normal(size=(m,n))*(rng.random((m,n))<0.3)
    xl = np.full(n,-np.inf); xu=np.full(n,np.inf)
    for j in range(n):
        t = rng.integers(0,5)
        if t==1: xl[j] = rng.normal()-1
        elif t==2: xu[j] = rng.normal()+1
        elif t==3: xl[j]=rng.normal()-1; xu[j]=xl[j]+abs(rng.normal())+0.1
        elif t==4 and rng.random()<0.3: xl[j]=xu[j]=rng.normal()
    xfeas = np.clip(rng.normal(size=n), xl, xu)
    cf = A@xfeas + 0.5*B@(xfeas*xfeas)
    b = np.zeros(m); cl=np.zeros(m); cu=np.zeros(m)
    for i in range(m):
        t = rng.integers(0,4)
        if t==0: cl[i]=cu[i]=cf[i]*rng.integers(0,2)
        elif t==1: cl[i]=cf[i]-abs(rng.normal()); cu[i]=np.inf
        elif t==2: cl[i]=-np.inf; cu[i]=cf[i]+abs(rng.normal())
        else: cl[i]=cf[i]-abs(rng.normal()); cu[i]=cf[i]+abs(rng.normal())
        if cl[i]==cu[i]: b[i] = 0.0 if cl[i]!=0 else cf[i]
    if kind=='infeas' and m>0:
        # make row 0 infeasible: c0 = x0^2 + 1 = 0
        A[0]=0; B[0]=0; B[0,0]=2.0; b[0]=-1.0; cl[0]=cu[0]=0.0
    x0 = np.clip(rng.normal(size=n)*2, xl, xu)
    return dict(n=n,m=m,Q=Q,q=q,a=a,A=A,B=B,b=b,xl=xl,xu=xu,cl=cl,cu=cu,x0=x0,y0=rng.normal(size=m)*rng.integers(0,2),kind=kind, fmt=str(rng.choice(['coo','csr','csc'])))

def gen_params(rng, spec):
    kw = {}
    kw['newton_type'] = NewtonType[rng.choice(['Simplified','Full','ActiveSet','Globalized'], p=[.35,.25,.25,.15])]
    kw['step_solver_type'] = StepSolverType[rng.choice(['Standard','Extended','Symmetric','Asymmetric'])]
    ls = ['LU','GMRES'] + (['MINRES'] if kw['step_solver_type']==StepSolverType.Symmetric else [])
    kw['linear_solver_type'] = LinearSolverType[rng.choice(ls, p=None)]
    kw['step_control_type'] = StepControlType[rng.choice(['Exact','Fixed','ResiduumRatio','DistanceRatio'])]
    kw['penalty_update'] = PenaltyUpdate[rng.choice([p.name for p in PenaltyUpdate])]
    ast = rng.choice([a.name for a in ActiveSetType]); kw['active_set_type']=ActiveSetType[ast]
    if ast=='Explicit': kw['active_set_tau']=float(rng.choice([0.1,1.0,10.]))
    kw['report_rcond']=bool(rng.random()<0.3); kw['collect_path']=bool(rng.random()<0.3)
    st = rng.choice(['NoScaling','GradJac','KKT','Nominal','Custom'])
    kw['scaling_type']=ScalingType[st]
    if st in ('GradJac','KKT','Nominal'):
        kw['scaling_primal']=spec['x0'].copy(); kw['scaling_dual']=spec['y0'].copy()
    if st=='Custom':
        kw['scaling']=Scaling(rng.integers(-3,4,size=spec['n']), rng.integers(-3,4,size=spec['m']), int(rng.integers(-2,3)))
    kw['iteration_limit']=int(rng.choice([5,50,400]))
    if rng.random()<0.2: kw['rho']=float(10.0**rng.integers(-8,3))
    if rng.random()<0.2: kw['lamb_init']=float(10.0**rng.integers(-4,4))
    return kw
