from h import *
from pygradflow.transform import Transformation
def reftrans(spec, sc):
    n,m=spec['n'],spec['m']
    wv=np.zeros(n,int) if sc is None else np.asarray(sc.var_weights); wc=np.zeros(m,int) if sc is None else np.asarray(sc.cons_weights); wo=0 if sc is None else int(sc.obj_weight)
    cl=np.ldexp(spec['cl'],wc); cu=np.ldexp(spec['cu'],wc)
    slack=[i for i in range(m) if cl[i]!=cu[i]]
    off=np.array([(-cl[i] if (cl[i]==cu[i]) else 0.0) for i in range(m)])
    p=GenProblem(spec)
    def ev(xi, y):
        xs=xi[:n]; s=xi[n:]
        x=np.ldexp(xs,-wv)
        f=np.ldexp(p.obj(x),wo); g=np.concatenate([np.ldexp(p.obj_grad(x),wo-wv), np.zeros(len(slack))])
        if m>0:
            c=np.ldexp(p.cons(x),wc)
            for i in range(m):
                if i in slack: c[i]=c[i]-s[slack.index(i)]
                elif off[i]!=0: c[i]=c[i]+off[i]
            J=np.ldexp(p.cons_jac(x).toarray(), wc[:,None]-wv[None,:])
            E=np.zeros((m,len(slack)))
            for k,i in enumerate(slack): E[i,k]=-1.0
            J=np.hstack([J,E])
            yo=np.ldexp(y,wc-wo)
        else:
            c=np.zeros(0); J=np.zeros((0,n)); yo=y
        H=np.ldexp(p.lag_hess(x,yo).toarray(), wo-wv[:,None]-wv[None,:])
        Hf=np.zeros((n+len(slack),)*2); Hf[:n,:n]=H
        return f,g,c,J,Hf
    lb=np.concatenate([np.ldexp(spec['xl'],wv), cl[slack]]); ub=np.concatenate([np.ldexp(spec['xu'],wv), cu[slack]])
    return ev, lb, ub, slack
def check(seed):
    rng=np.random.default_rng(seed); spec=gen_spec(rng, kind=rng.choice(['qp','nlp'])); kw=gen_params(rng,spec)
    out=[]
    P=Params(**kw)
    try: tr=Transformation(GenProblem(spec),P)
    except Exception as e: return [('ctor',str(e)[:40])]
    tp=tr.trans_problem; ev,lb,ub,slack=reftrans(spec,tr.scaling)
    if tp.var_lb.tobytes()!=lb.tobytes() or tp.var_ub.tobytes()!=ub.tobytes(): out.append(('bounds',))
    N=spec['n']+len(slack)
    for _ in range(4):
        xi=rng.normal(size=N)*3; y=rng.normal(size=spec['m'])
        f,g,c,J,H=ev(xi,y)
        if np.float64(tp.obj(xi)).tobytes()!=np.float64(f).tobytes(): out.append(('obj',))
        if tp.obj_grad(xi).tobytes()!=g.tobytes(): out.append(('grad',))
        if spec['m']>0:
            if tp.cons(xi).tobytes()!=c.tobytes(): out.append(('cons',))
            if tp.cons_jac(xi).toarray().tobytes()!=J.tobytes(): out.append(('jac',))
        if tp.lag_hess(xi,y).toarray().tobytes()!=H.tobytes(): out.append(('hess',))
    # round trip
    x=rng.normal(size=spec['n']); x=np.clip(x,spec['xl'],spec['xu']); y=rng.normal(size=spec['m'])
    xs,ys=tr.transform_sol(x,y); xr,yr,dr=tr.restore_sol(xs,ys,np.zeros_like(xs))
    if xr.tobytes()!=x.tobytes() or yr.tobytes()!=y.tobytes(): out.append(('roundtrip',))
    return out
if __name__=='__main__':
    from concurrent.futures import ProcessPoolExecutor
    c=collections.Counter()
    with ProcessPoolExecutor(16) as ex_:
        for i,res in enumerate(ex_.map(check, range(int(sys.argv[1])), chunksize=8)):
            for v in res:
                c[v[:1]]+=1
                if c[v[:1]]<=3: print(i,v)
    for k,v in sorted(c.items(), key=str): print(v,k)
