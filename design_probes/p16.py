from h import *
import pygradflow.linear_solver.lu_solver as LU, pygradflow.linear_solver.gmres_solver as GM, pygradflow.linear_solver.minres_solver as MR
from pygradflow.linear_solver import LinearSolverError
PLAN=dict(fact=0,solve=0,ff=set(),fs=set(),fired=[])
def wrap(cls):
    oi, os_ = cls.__init__, cls.solve
    def init(self, mat, symmetric=False):
        PLAN['fact']+=1
        if PLAN['fact'] in PLAN['ff']: PLAN['fired'].append(('fact',PLAN['fact'],CUR[0])); raise LinearSolverError('inj fact')
        oi(self, mat, symmetric=symmetric)
    def solve(self, rhs, trans=False, initial_sol=None):
        obs = sys._getframe(1).f_code.co_filename.endswith('cond_estimate.py')
        if not obs:
            PLAN['solve']+=1
            if PLAN['solve'] in PLAN['fs']: PLAN['fired'].append(('solve',PLAN['solve'],CUR[0])); raise LinearSolverError('inj solve')
        return os_(self, rhs, trans=trans, initial_sol=initial_sol)
    cls.__init__=init; cls.solve=solve
for c in (LU.LUSolver, GM.GMRESSolver, MR.MINRESSolver): wrap(c)
CUR=[-1]
class FS(RS):
    def _compute_step(self, *a):
        CUR[0]=len(self.trials)
        return super()._compute_step(*a)
class FDev(GenProblem):
    def __init__(s, spec, plan): super().__init__(spec); s.plan=plan; s.cnt=collections.Counter(); s.fired=[]
    armed=False
    def _f(s,name,x,v):
        if not s.armed: return v
        s.cnt[name]+=1
        if (name,s.cnt[name]) in s.plan:
            s.fired.append((name,s.cnt[name],CUR[0],x.tobytes()))
            if np.isscalar(v): return float('nan')
            if isinstance(v,np.ndarray):
                v=v.copy()
                if v.size: v[-1]=np.inf
                else: return v
                return v
            v=v.tocoo(copy=True)
            if v.nnz: v.data[0]=np.nan
            return v
        return v
    def obj(s,x): return s._f('obj',x,super().obj(x))
    def obj_grad(s,x): return s._f('grad',x,super().obj_grad(x))
    def cons(s,x): return s._f('cons',x,super().cons(x))
    def cons_jac(s,x): return s._f('jac',x,super().cons_jac(x))
    def lag_hess(s,x,y): return s._f('hess',x,super().lag_hess(x,y))
def frun(spec,kw,evplan=(),ff=(),fs=()):
    PLAN.update(fact=0,solve=0,ff=set(ff),fs=set(fs),fired=[]); CUR[0]=-1
    T.time=Clk(); LG.setLevel(logging.CRITICAL)
    p=FDev(spec,set(evplan)); s=FS(p,Params(**kw)); s.trials=[]
    o=dict(solver=s,problem=p)
    try:
        p.armed=True
        r=s.solve(spec['x0'].copy(), spec['y0'].copy()); o.update(status=r.status.name,result=r)
    except Exception as e:
        tb=[f for f in traceback.extract_tb(e.__traceback__) if '/pygradflow/' in f.filename]
        o.update(status='EXC',exc=e,where=tb[-1].name if tb else '?',result=None)
    o['lin']=list(PLAN['fired']); o['nf']=PLAN['fact']; o['ns']=PLAN['solve']
    return o
def check(seed):
    rng=np.random.default_rng(seed); spec=gen_spec(rng, kind=rng.choice(['qp','nlp'])); kw=gen_params(rng,spec)
    if kw['newton_type']==NewtonType.Globalized: kw['newton_type']=NewtonType.ActiveSet
    if kw['step_solver_type']==StepSolverType.Asymmetric: kw['step_solver_type']=StepSolverType.Extended
    kw['iteration_limit']=40; kw['report_rcond']=False; kw['display_interval']=1e9; kw['validate_input']=True
    ref=frun(spec,kw)
    if ref['status']=='EXC': return []
    out=[]
    N=dict(ref['problem'].cnt)
    plans=[]
    for comp,n in N.items():
        if n==0: continue
        for k in sorted(set(int(v) for v in rng.integers(1,n+1,size=4))): plans.append(dict(evplan=[(comp,k)]))
    if ref['nf']==0 or ref['ns']==0: return []
    for k in sorted(set(int(v) for v in rng.integers(1,ref['nf']+1,size=4))): plans.append(dict(ff=[k]))
    for k in sorted(set(int(v) for v in rng.integers(1,ref['ns']+1,size=4))): plans.append(dict(fs=[k]))
    for pl in plans:
        o=frun(spec,kw,**pl); s=o['solver']; tr=s.trials
        fired=[(f[0],f[2]) for f in o['problem'].fired]+[(f[0],f[2]) for f in o['lin']]
        if not fired: out.append(('notfired',str(pl))); continue
        pre=[f for f in fired if f[1]<0]
        if pre:
            if not (o['status']=='EXC' and str(o['exc']).startswith('Failed to evaluate initial')): out.append(('initial',pre[0][0],o['status'],o.get('where'),str(o.get('exc'))[:30]))
            continue
        if o['status']=='EXC' and not str(o['exc']).startswith('Inverse step'): out.append(('exc',fired[0][0],type(o['exc']).__name__,o['where'])); continue
        for comp,t in fired:
            if t>=len(tr): out.append(('fired-after',comp)); continue
            tt=tr[t]
            if tt['acc'] or tt['out'] is not tt['inp'] or tt['lamb']!=2.0*(1.0/tt['dt']): out.append(('not-discarded',comp,tt['acc'],tt['out'] is tt['inp']))
            if t+1<len(tr) and tr[t+1]['inp'] is not tt['inp']: out.append(('moved',comp))
        if o['result'] is not None:
            r=o['result']
            if not (np.isfinite(r.x).all() and np.isfinite(r.y).all() and np.isfinite(r.d).all()): out.append(('nonfinite',))
    return out
if __name__=='__main__':
    from concurrent.futures import ProcessPoolExecutor
    c=collections.Counter()
    with ProcessPoolExecutor(16) as ex_:
        for i,res in enumerate(ex_.map(check, range(int(sys.argv[1])), chunksize=2)):
            for v in res:
                c[v]+=1
                if c[v]<=1: print(i,v)
    for k,v in sorted(c.items(), key=str): print(v,k)
