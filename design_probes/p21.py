from h import *
from pygradflow.penalty import ObjectivePenaltyFilter, LagrangianPenaltyFilter
class Stub:  # iterate stub
    def __init__(s,a,b): s.obj=a; s.cons_violation=b
spec=gen_spec(np.random.default_rng(0),kind='qp')
bad=0; nops=0
for seed in range(3000):
    rng=np.random.default_rng(seed)
    f=ObjectivePenaltyFilter(GenProblem(spec), Params(rho=float(rng.choice([1e-8,1.0]))))
    model=[]; rho=f.rho
    scale=float(rng.choice([1.0,0.5,1e-3]))
    for _ in range(int(rng.integers(1,40))):
        a,b=(float(rng.integers(0,4))*scale, float(rng.integers(0,4))*scale) if rng.random()<0.7 else (float(rng.normal()),abs(float(rng.normal())))
        nops+=1
        refuse=any(e[0]<=a and e[1]<=b for e in model)
        if not refuse:
            model=[e for e in model if not (a<=e[0] and b<=e[1])]+[(a,b)]
        if rng.random()<0.5:
            ret=f.filter_insert(a,b)
            if ret==refuse: bad+=1
        else:
            res=f.update(None, Stub(a,b))
            if res.accept==refuse: bad+=1
            if refuse: rho*=10.0
            if res.next_rho!=rho or f.rho!=rho: bad+=1
        if sorted(f.entries)!=sorted(model): bad+=1
        E=f.entries
        if any(i!=j and E[i][0]<=E[j][0] and E[i][1]<=E[j][1] for i in range(len(E)) for j in range(len(E))): bad+=1
print('ops',nops,'bad',bad)
