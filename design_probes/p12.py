from h import *
EPS=np.finfo(float).eps
def kkt_scaled(spec, kw, r, solver):
    P=Params(**kw); tol=P.opt_tol; at=P.active_tol
    sc=solver.transform.scaling
    n,m=spec['n'],spec['m']
    wv=np.zeros(n,int) if sc is None else np.asarray(sc.var_weights); wc=np.zeros(m,int) if sc is None else np.asarray(sc.cons_weights); wo=0 if sc is None else int(sc.obj_weight)
    p=GenProblem(spec); x,y,d=r.x,r.y,r.d
    f=1+1e-6
    bad=[]
    if (x<spec['xl']).any() or (x>spec['xu']).any(): bad.append('bounds')
    g=p.obj_grad(x)
    taux=tol*np.ldexp(1.0, wv-wo)
    if m>0:
        c=p.cons(x); J=p.cons_jac(x).toarray()
        tauc=tol*np.ldexp(1.0,-wc); tauy=tol*np.ldexp(1.0,wc-wo); alc=(tol+at)*np.ldexp(1.0,-wc)
        S=np.abs(spec['A']@x)+np.abs(spec['b'])+1
        if ((spec['cl']-c)>tauc*f+64*EPS*S).any() or ((c-spec['cu'])>tauc*f+64*EPS*S).any(): bad.append('feas')
        res=g+J.T@y+d; Sx=np.abs(g)+np.abs(J).T@np.abs(y)+np.abs(d)
        pos=y>tauy*f; neg=y<-tauy*f
        if (pos & ~(c>=spec['cu']-alc*f-64*EPS*S)).any(): bad.append('ypos')
        if (neg & ~(c<=spec['cl']+alc*f+64*EPS*S)).any(): bad.append('yneg')
    else:
        res=g+d; Sx=np.abs(g)+np.abs(d)
    if (np.abs(res)>taux*f+64*EPS*Sx).any(): bad.append(('stat',float((np.abs(res)/taux).max())))
    alx=at*np.ldexp(1.0,-wv)
    atu=np.abs(x-spec['xu'])<=alx; atl=np.abs(x-spec['xl'])<=alx
    if ((d!=0)&~(atu|atl)).any(): bad.append('d-inactive')
    if ((d>0)&~atu).any() or ((d<0)&~atl).any(): bad.append('d-sign')
    return bad
def check(seed):
    rng=np.random.default_rng(seed); spec=gen_spec(rng, kind=rng.choice(['qp','nlp','degenerate'])); kw=gen_params(rng,spec)
    if kw['newton_type']==NewtonType.Globalized: kw['newton_type']=NewtonType.Simplified
    kw['iteration_limit']=1500
    kw['scaling_type']=ScalingType.Custom; kw['scaling']=Scaling(rng.integers(-4,5,size=spec['n']), rng.integers(-4,5,size=spec['m']), int(rng.integers(-3,4)))
    kw.pop('scaling_primal',None); kw.pop('scaling_dual',None)
    o=run(spec,kw)
    if o['status']=='Optimal':
        b=kkt_scaled(spec,kw,o['result'],o['solver'])
        return ('Optimal', tuple(map(str,b)))
    return (o['status'],())
if __name__=='__main__':
    from concurrent.futures import ProcessPoolExecutor
    c=collections.Counter()
    with ProcessPoolExecutor(16) as ex_:
        for i,res in enumerate(ex_.map(check, range(int(sys.argv[1])), chunksize=8)):
            c[res]+=1
            if res[1]: print(i,res)
    print(dict(c))
