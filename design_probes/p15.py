from h import *
class Dev(GenProblem):
    """return-policy device: fresh/cached/memo + snapshot checking"""
    def __init__(s, spec, policy, fmt):
        spec=dict(spec); spec['fmt']=fmt; super().__init__(spec); s.policy=policy; s.memo={}; s.snap=[]; s.mut=[]
    def _ret(s, name, key, make):
        s.audit()
        if s.policy=='fresh': v=make()
        else:
            k=(name,key) if (s.policy=='memo' or name in('cons','grad','obj')) else (name,)
            if s.policy=='cached' and name in('jac','hess') and not s.s['B'].any() and not s.s['a'].any(): k=(name,)
            elif s.policy=='cached': k=(name,key)
            if k not in s.memo: s.memo[k]=make()
            v=s.memo[k]
        if not np.isscalar(v): s.snap.append((name, v, s.bytes_of(v)))
        return v
    @staticmethod
    def bytes_of(v):
        if isinstance(v,np.ndarray): return v.tobytes()
        c=v.tocoo(copy=True); return (c.row.tobytes(),c.col.tobytes(),c.data.tobytes(),type(v).__name__)
    def audit(s):
        for name,v,b in s.snap:
            if s.bytes_of(v)!=b: s.mut.append(name)
        s.snap=[(n,v,s.bytes_of(v)) for n,v,b in s.snap[-50:]]
    def obj(s,x): return GenProblem.obj(s,x)
    def obj_grad(s,x): return s._ret('grad',x.tobytes(),lambda: GenProblem.obj_grad(s,x))
    def cons(s,x): return s._ret('cons',x.tobytes(),lambda: GenProblem.cons(s,x))
    def cons_jac(s,x): return s._ret('jac',x.tobytes(),lambda: GenProblem.cons_jac(s,x))
    def lag_hess(s,x,y): return s._ret('hess',x.tobytes()+y.tobytes(),lambda: GenProblem.lag_hess(s,x,y))
def check(seed):
    rng=np.random.default_rng(seed); spec=gen_spec(rng, kind=rng.choice(['qp','nlp'])); kw=gen_params(rng,spec)
    if kw['newton_type']==NewtonType.Globalized: kw['newton_type']=NewtonType.Simplified
    kw['iteration_limit']=60; kw['report_rcond']=False
    out=[]
    fmt=spec['fmt']
    ref=run(spec,kw,problem=Dev(spec,'fresh',fmt))
    if ref['problem'].mut: out.append(('mut-fresh',fmt,tuple(sorted(set(ref['problem'].mut))),kw['scaling_type'].name))
    for pol in ('cached','memo'):
        o=run(spec,kw,problem=Dev(spec,pol,fmt)); o['problem'].audit()
        if o['problem'].mut: out.append(('mut',pol,fmt,tuple(sorted(set(o['problem'].mut))),kw['scaling_type'].name))
        if o['traj']!=ref['traj'] or o['key']!=ref['key']: out.append(('twin',pol,fmt,kw['scaling_type'].name,o['key'][:3],ref['key'][:3]))
    # C10: reuse same solver twice; then interleave
    T.time=Clk(); LG.setLevel(logging.CRITICAL)
    s=RS(GenProblem(spec),Params(**kw)); keys=[]
    for rep in range(3):
        s.trials=[]
        try:
            r=s.solve(spec['x0'].copy(), spec['y0'].copy()); k=(r.status.name,r.iterations,r.x.tobytes(),r.y.tobytes(),r.d.tobytes())
        except Exception as e: k=('EXC',str(e)[:30])
        keys.append((k,[tkey(t) for t in s.trials]))
        if rep==0:
            # perturbing solve in between: different start, aborted early by limit
            s2=Solver(GenProblem(spec)); 
            try: s2.solve(np.clip(spec['x0']+1,spec['xl'],spec['xu']), spec['y0'].copy())
            except Exception: pass
    if keys[0]!=keys[1] or keys[0]!=keys[2]: out.append(('reuse',))
    if keys[0][1]!=ref['traj']: out.append(('reuse-vs-ref',))
    return out
if __name__=='__main__':
    from concurrent.futures import ProcessPoolExecutor
    c=collections.Counter()
    with ProcessPoolExecutor(16) as ex_:
        for i,res in enumerate(ex_.map(check, range(int(sys.argv[1])), chunksize=2)):
            for v in res:
                c[v[:4]]+=1
                if c[v[:4]]<=2: print(i,v)
    for k,v in sorted(c.items(), key=str): print(v,k)
