import numpy as np, sys, logging, traceback, warnings, collections, pickle
from concurrent.futures import ProcessPoolExecutor
sys.path.insert(0,'/repo'); sys.path.insert(0,'/verif/design_probes')
from gen import *
from pygradflow.solver import Solver
logging.getLogger("gradflow").setLevel(logging.CRITICAL)
warnings.simplefilter('ignore')
def one(seed):
    rng=np.random.default_rng(seed)
    spec=gen_spec(rng); kw=gen_params(rng,spec)
    try:
        p=GenProblem(spec)
        r=Solver(p,Params(**kw)).solve(spec['x0'].copy(), spec['y0'].copy())
        fin = np.isfinite(r.x).all() and np.isfinite(r.y).all() and np.isfinite(r.d).all()
        return (seed,'OK' if fin else 'NONFINITE', r.status.name, spec['kind'])
    except Exception as e:
        tb=[f for f in traceback.extract_tb(e.__traceback__) if 'pygradflow' in f.filename]
        last=tb[-1] if tb else traceback.extract_tb(e.__traceback__)[-1]
        return (seed,'EXC', type(e).__name__+':'+str(e)[:50], last.filename.split('/')[-1]+':'+str(last.lineno))
if __name__=='__main__':
    N=int(sys.argv[1])
    with ProcessPoolExecutor(16) as ex:
        res=list(ex.map(one, range(N), chunksize=8))
    c=collections.Counter((r[1],r[2] if r[1]!='EXC' else (r[2].split(':')[0], r[3])) for r in res)
    for k,v in sorted(c.items(), key=lambda kv:-kv[1]): print(v,k)
    ex_={}
    for r in res:
        if r[1]=='EXC': ex_.setdefault(r[3],[]).append((r[0],r[2]))
    for k,v in ex_.items(): print(k, v[:4])
