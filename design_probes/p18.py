from h import *
from pygradflow.deriv_check import DerivError
class CDev(GenProblem):
    def __init__(s, spec, cor): super().__init__(spec); s.cor=cor
    def obj_grad(s,x):
        g=super().obj_grad(x).copy()
        if s.cor and s.cor[0]=='grad': g[s.cor[2]]+=s.cor[3]
        return g
    def cons_jac(s,x):
        J=super().cons_jac(x).toarray()
        if s.cor and s.cor[0]=='jac': J[s.cor[1],s.cor[2]]+=s.cor[3]
        return sp.sparse.coo_matrix(J).asformat(s.fmt)
    def lag_hess(s,x,y):
        H=super().lag_hess(x,y).toarray()
        if s.cor and s.cor[0]=='hess': H[s.cor[1],s.cor[2]]+=s.cor[3]
        return sp.sparse.coo_matrix(H).asformat(s.fmt)
def check(seed):
    rng=np.random.default_rng(seed); spec=gen_spec(rng, kind=rng.choice(['qp','nlp']))
    # well-scaled: shrink
    n,m=spec['n'],spec['m']
    kw=dict(deriv_check=DerivCheck.CheckAll, iteration_limit=30)
    out=[]
    o=run(spec,kw,problem=CDev(spec,None))
    if o['status']=='EXC': out.append(('false-positive',type(o['exc']).__name__, str(o['exc'])[:60]))
    o0=run(spec,dict(iteration_limit=30),problem=CDev(spec,None))
    if o['status']!='EXC' and (o['traj']!=o0['traj'] or o['key']!=o0['key']): out.append(('check-alters',))
    comps=['grad','hess']+(['jac'] if m>0 else [])
    for comp in comps:
        for _ in range(3):
            row = 0 if comp=='grad' else int(rng.integers(0, m if comp=='jac' else n)); col=int(rng.integers(0,n))
            mag=float(rng.choice([1.5,3,10,1e3]))
            # entry magnitude
            delta=(mag*(1e-4+1e-5*50)+1e-5)*float(rng.choice([-1,1]))
            o=run(spec,kw,problem=CDev(spec,(comp,row,col,delta)))
            if o['status']!='EXC' or not isinstance(o['exc'],DerivError): out.append(('missed',comp,mag,o['status'])); continue
            e=o['exc']
            if e.col_index!=col or list(e.invalid_indices)!=[row]: out.append(('wrong-loc',comp,(row,col),(list(e.invalid_indices),e.col_index)))
    return out
if __name__=='__main__':
    from concurrent.futures import ProcessPoolExecutor
    c=collections.Counter()
    with ProcessPoolExecutor(16) as ex_:
        for i,res in enumerate(ex_.map(check, range(int(sys.argv[1])), chunksize=2)):
            for v in res:
                c[v[:2]]+=1
                if c[v[:2]]<=3: print(i,v)
    for k,v in sorted(c.items(), key=str): print(v,k)
