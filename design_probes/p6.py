import numpy as np, sys, logging, traceback, warnings, collections
from concurrent.futures import ProcessPoolExecutor
sys.path.insert(0,'/repo'); sys.path.insert(0,'/verif/design_probes')
from gen import *
from pygradflow.solver import Solver
from pygradflow.integration.integration_solver import IntegrationSolver
from pygradflow.status import SolverStatus
logging.getLogger("gradflow").setLevel(logging.CRITICAL)
warnings.simplefilter('ignore')
def kkt(spec, x, y, d, tol=1e-6):
    p=GenProblem(spec)
    out={}
    out['bnd']=max(np.max(np.maximum(spec['xl']-x,0),initial=0), np.max(np.maximum(x-spec['xu'],0),initial=0))
    g=p.obj_grad(x)
    if spec['m']>0:
        c=p.cons(x); J=p.cons_jac(x).toarray()
        out['feas']=max(np.max(np.maximum(spec['cl']-c,0),initial=0), np.max(np.maximum(c-spec['cu'],0),initial=0))
        r=g+J.T@y+d
        atu=np.abs(c-spec['cu'])<=tol; atl=np.abs(c-spec['cl'])<=tol
        out['ysign']=max(np.max(np.where(~atu, np.maximum(y,0),0),initial=0), np.max(np.where(~atl, np.maximum(-y,0),0),initial=0))
    else:
        r=g+d; out['feas']=0; out['ysign']=0
    out['stat']=np.max(np.abs(r),initial=0)
    xatu=np.abs(x-spec['xu'])<=1e-8; xatl=np.abs(x-spec['xl'])<=1e-8
    out['dsign']=max(np.max(np.where(~xatu, np.maximum(d,0),0),initial=0), np.max(np.where(~xatl, np.maximum(-d,0),0),initial=0))
    return out
def one(seed):
    rng=np.random.default_rng(seed)
    spec=gen_spec(rng, kind=rng.choice(['qp','nlp'])); kw=gen_params(rng,spec)
    which = sys.argv[2]
    try:
        p=GenProblem(spec)
        if which=='int':
            r=IntegrationSolver(p,Params(iteration_limit=200)).solve(spec['x0'].copy(), spec['y0'].copy())
        else:
            kw['scaling_type']=ScalingType.NoScaling; kw.pop('scaling',None); kw['iteration_limit']=2000
            r=Solver(p,Params(**kw)).solve(spec['x0'].copy(), spec['y0'].copy())
        if r.status==SolverStatus.Optimal:
            k=kkt(spec,r.x,r.y,r.d)
            bad={a:float(b) for a,b in k.items() if b>1e-6*(1+1e-6)}
            return (seed,'OPT', 'bad' if bad else 'ok', bad)
        return (seed,'OK', r.status.name, None)
    except Exception as e:
        tb=[f for f in traceback.extract_tb(e.__traceback__) if 'pygradflow' in f.filename]
        last=tb[-1] if tb else traceback.extract_tb(e.__traceback__)[-1]
        return (seed,'EXC', type(e).__name__+':'+str(e)[:50], last.filename.split('/')[-1]+':'+str(last.lineno))
if __name__=='__main__':
    N=int(sys.argv[1])
    with ProcessPoolExecutor(16) as ex:
        res=list(ex.map(one, range(N), chunksize=4))
    c=collections.Counter((r[1],r[2]) if r[1]!='EXC' else (r[1],r[3]) for r in res)
    for k,v in sorted(c.items(), key=lambda kv:-kv[1]): print(v,k)
    for r in res:
        if r[1]=='OPT' and r[2]=='bad': print(r)
