from h import *
# validate C12/C15/C16 invariants + C01 with scaling on current tree
viol=collections.Counter(); n=0; ex=collections.Counter()
def check(seed):
    rng=np.random.default_rng(seed); spec=gen_spec(rng); kw=gen_params(rng,spec)
    if kw['newton_type']==NewtonType.Globalized: kw['newton_type']=NewtonType.Full
    kw['collect_path']=True
    o=run(spec,kw); s=o['solver']; tr=s.trials; cb=s.cbs; P=Params(**kw)
    out=[]
    if o['status']=='EXC':
        return [('EXC',type(o['exc']).__name__,o['where'])] if not str(o['exc']).startswith(('Inverse','Line')) else []
    r=o['result']
    if len(tr)!=r.iterations or len(cb)!=len(tr): out.append('count')
    for t in range(len(tr)-1):
        a,b=tr[t],tr[t+1]
        if b['dt']!=1.0/a['lamb']: out.append('dtchain')
        if not a['acc']:
            if b['inp'] is not a['inp']: out.append('rej-moved')
            if not (a['lamb']>1.0/a['dt']): out.append('rej-notlarger')
        if b['rho']<a['rho'] or not b['rho']>0: out.append('rho-decr')
        if kw['penalty_update']==PenaltyUpdate.Constant and b['rho']!=P.rho: out.append('rho-const')
        if b['rho']>10*a['rho']*(1+1e-15) and kw['penalty_update']==PenaltyUpdate.DualNorm: out.append('rho-x10')
        if b['inp'] is not a['inp'] and b['inp'] is not a['out']: out.append('chain')
    for t in tr:
        if 1.0/t['dt']>=P.lamb_max: out.append('trial-at-lambmax')
        if t['acc']:
            pr=s.problem
            if (t['out'].x<pr.var_lb).any() or (t['out'].x>pr.var_ub).any(): out.append('acc-outside')
    if kw['penalty_update']==PenaltyUpdate.DualNorm and spec['m']>0:
        ymax=P.rho
        cur=tr[0]['inp'] if tr else None
        for t in tr:
            if t['inp'] is not cur: cur=t['inp']; ymax=max(ymax, float(np.abs(cur.y).max()))
            if t['rho']>ymax*(1+1e-15): out.append('dualnorm-bound')
    for (it,nit,acc,rho),t in zip(cb,tr):
        if it is not t['inp'] or nit is not t['out'] or rho!=t['rho']: out.append('cb-mismatch')
    # path
    accs=[i for i in range(len(tr)) if (tr[i+1]['inp'] is tr[i]['out'] if i+1<len(tr) else None)]
    if r.path is not None:
        nacc=r.num_accepted_steps
        if r.path.shape[1]!=nacc+1: out.append('pathlen')
        if not (r.dist_factor>=1-1e-9): out.append('distfactor')
    return out
if __name__=='__main__':
    from concurrent.futures import ProcessPoolExecutor
    with ProcessPoolExecutor(16) as ex_:
        for res in ex_.map(check, range(int(sys.argv[1])), chunksize=8):
            n+=1
            for v in set(map(str,res)): viol[v]+=1
    print(n, dict(viol))
