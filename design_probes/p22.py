from h import *
hs=hashlib.sha256()
for seed in range(int(sys.argv[1])):
    rng=np.random.default_rng(seed); spec=gen_spec(rng); kw=gen_params(rng,spec); kw['iteration_limit']=60
    o=run(spec,kw,clock=Clk(plan=[0.05]*500), level=logging.INFO, cbs=(touch,))
    hs.update(repr((o['key'],o['traj'],[(w,v) for w,v in o['clock'].reads])).encode())
print(hs.hexdigest())
