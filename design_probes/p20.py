from h import *
from p19 import reftrans
EPS=np.finfo(float).eps
def check(seed):
    rng=np.random.default_rng(seed); spec=gen_spec(rng, kind=rng.choice(['infeas','unbdd','degenerate'])); kw=gen_params(rng,spec)
    if kw['newton_type']==NewtonType.Globalized: kw['newton_type']=NewtonType.Simplified
    kw['iteration_limit']=int(rng.choice([3,30,600])); kw['report_rcond']=False
    if rng.random()<0.5: kw['time_limit']=float(rng.choice([0.5,5.0]))
    plan=[float(rng.choice([0,0,0.01,0.3,-0.2])) for _ in range(3000)]
    o=run(spec,kw,clock=Clk(plan=plan)); out=[]
    if o['status']=='EXC': return []
    r=o['result']; s=o['solver']; P=Params(**kw); st=o['status']
    lim=kw['iteration_limit']
    if (st=='IterationLimit')!=(r.iterations==lim) or r.iterations>lim or len(s.trials)!=r.iterations: out.append(('iterlimit',st,r.iterations,lim))
    if st=='TimeLimit':
        reads=o['clock'].reads; start=[v for w,v in reads if w=='Timer.__init__'][0]
        if not any(w=='Timer.elapsed' and v-start>=P.time_limit for w,v in reads): out.append(('timelimit',))
    ev,lb,ub,slack=reftrans(spec,s.transform.scaling)
    fin = s.trials[-1]['out'] if False else None
    # final internal iterate: last accepted = input of a hypothetical next trial; take from cbs
    cur = s.trials[0]['inp'] if s.trials else None
    for i,t in enumerate(s.trials):
        nxt = s.trials[i+1]['inp'] if i+1<len(s.trials) else None
        if nxt is not None: cur=nxt
    # last step acceptance unknown -> use result x to decide
    if s.trials:
        last=s.trials[-1]
        xs,ys,ds=s.transform.restore_sol(last['out'].x,last['out'].y,last['out'].bounds_dual)
        if xs.tobytes()==r.x.tobytes() and ys.tobytes()==r.y.tobytes(): cur=last['out']
    if cur is None: return out
    xi=cur.x; f,g,c,J,H=ev(xi,cur.y)
    tol=P.opt_tol
    if st=='LocallyInfeasible':
        viol=np.abs(c).max() if c.size else 0.0
        if not viol>tol*(1-1e-9): out.append(('infeas-viol',viol))
        pg=J.T@c; atl=np.abs(xi-lb)<=P.active_tol; atu=np.abs(ub-xi)<=P.active_tol; both=atl&atu
        pg=np.where(atl&~both, np.minimum(pg,0), pg); pg=np.where(atu&~both, np.maximum(pg,0), pg)
        S=(np.abs(J).T@np.abs(c))
        if not (np.abs(pg)<=P.local_infeas_tol*(1+1e-9)+64*EPS*S).all(): out.append(('infeas-stat',float(np.abs(pg).max())))
    if st=='Unbounded':
        if not f<=P.obj_lower_limit: out.append(('unb-obj',f))
        if c.size and not np.abs(c).max()<=tol*(1+1e-9): out.append(('unb-feas',))
    return [(v,st) for v in out] or [(('ok',),st)]
if __name__=='__main__':
    from concurrent.futures import ProcessPoolExecutor
    c=collections.Counter()
    with ProcessPoolExecutor(16) as ex_:
        for i,res in enumerate(ex_.map(check, range(int(sys.argv[1])), chunksize=8)):
            for v,st in res:
                c[(v[0],st)]+=1
                if v[0]!='ok' and c[(v[0],st)]<=3: print(i,v,st)
    for k,v in sorted(c.items(), key=str): print(v,k)
