from h import *
from pygradflow.problem import Problem
class QPp(Problem):
    def __init__(s, Q,q,A,b,xl,xu,cl,cu):
        s.Q=sp.sparse.csr_matrix(Q); s.q=q; s.A=sp.sparse.csr_matrix(A); s.b=b
        if A.shape[0]>0: super().__init__(xl,xu,cons_lb=cl,cons_ub=cu)
        else: super().__init__(xl,xu)
    def obj(s,x): return float(0.5*x@(s.Q@x)+s.q@x)
    def obj_grad(s,x): return s.Q@x+s.q
    def cons(s,x): return s.A@x-s.b
    def cons_jac(s,x): return s.A.copy()
    def lag_hess(s,x,y): return s.Q.copy()
def gen_qp(rng, n=None, banded=False):
    n=n or int(rng.integers(1,9))
    if banded:
        d=rng.uniform(2,6,size=n); o=rng.uniform(-1,1,size=n-1)
        Q=np.diag(d)+np.diag(o,1)+np.diag(o,-1)   # diag dominant => SPD, eig in [~0,8]
        Q+= 0.5*np.eye(n)
    else:
        V,_=np.linalg.qr(rng.normal(size=(n,n))); lam=rng.uniform(0.5,20,size=n); Q=(V*lam)@V.T; Q=(Q+Q.T)/2
    q=rng.normal(size=n)*3
    xl=np.full(n,-np.inf); xu=np.full(n,np.inf); xbar=rng.normal(size=n)*2
    fixed=np.zeros(n,bool)
    for j in range(n):
        t=rng.integers(0,6)
        if t==1: xl[j]=xbar[j]-rng.uniform(0.1,3)
        elif t==2: xu[j]=xbar[j]+rng.uniform(0.1,3)
        elif t==3: xl[j]=xbar[j]-rng.uniform(0.1,3); xu[j]=xbar[j]+rng.uniform(0.1,3)
        elif t==4 and rng.random()<0.4: xl[j]=xu[j]=xbar[j]; fixed[j]=True
    nfree=int((~fixed).sum())
    mmax = min(nfree, 4 if not banded else n//4)
    m=int(rng.integers(0,mmax+1))
    while True:
        if banded:
            A=np.zeros((m,n))
            for i in range(m):
                j0=int(rng.integers(0,n-2)); A[i,j0:j0+3]=rng.normal(size=3)
        else:
            A=rng.normal(size=(m,n))
        if m==0: break
        Af=A[:,~fixed]
        if np.linalg.svd(Af,compute_uv=False).min()>=0.2 and np.linalg.norm(A,2)<=10: break
    cf=A@xbar; cl=np.zeros(m); cu=np.zeros(m); b=np.zeros(m)
    for i in range(m):
        t=rng.integers(0,4)
        if t==0:
            if rng.random()<0.5: b[i]=cf[i]
            else: cl[i]=cu[i]=cf[i]
        elif t==1: cl[i]=cf[i]-rng.uniform(0.1,2); cu[i]=np.inf
        elif t==2: cl[i]=-np.inf; cu[i]=cf[i]+rng.uniform(0.1,2)
        else: cl[i]=cf[i]-rng.uniform(0.1,2); cu[i]=cf[i]+rng.uniform(0.1,2)
    x0=np.clip(xbar+rng.normal(size=n)*rng.choice([0.1,1,5])/max(1,math.sqrt(n)/2), xl, xu)
    return dict(Q=Q,q=q,A=A,b=b,xl=xl,xu=xu,cl=cl,cu=cu,x0=x0,n=n,m=m)
CFG=[{}, dict(newton_type=NewtonType.Full), dict(newton_type=NewtonType.ActiveSet), dict(step_solver_type=StepSolverType.Standard), dict(step_solver_type=StepSolverType.Extended), dict(step_solver_type=StepSolverType.Asymmetric), dict(step_control_type=StepControlType.Exact)]
def check(seed):
    rng=np.random.default_rng(seed)
    banded = seed%10==0
    s=gen_qp(rng, n=(int(rng.choice([50,200])) if banded else None), banded=banded)
    cfg=CFG[int(rng.integers(0,len(CFG)))]
    p=QPp(s['Q'],s['q'],s['A'],s['b'],s['xl'],s['xu'],s['cl'],s['cu'])
    LG.setLevel(logging.CRITICAL); T.time=Clk()
    try:
        r=Solver(p,Params(iteration_limit=5000, **cfg)).solve(s['x0'].copy(), np.zeros(s['m']))
        return (seed, r.status.name, r.iterations, s['n'], s['m'], str(cfg))
    except Exception as e:
        return (seed,'EXC '+type(e).__name__+str(e)[:40], -1, s['n'], s['m'], str(cfg))
if __name__=='__main__':
    from concurrent.futures import ProcessPoolExecutor
    c=collections.Counter(); mx=0
    with ProcessPoolExecutor(16) as ex_:
        for res in ex_.map(check, range(int(sys.argv[1])), chunksize=4):
            c[res[1]]+=1
            if res[1]=='Optimal': mx=max(mx,res[2])
            else: print(res)
    print(dict(c), 'max its', mx)
