# throwaway prototype harness for validating oracle designs
import numpy as np, scipy as sp, sys, logging, traceback, warnings, hashlib, collections, math
import os; sys.path.insert(0,os.environ.get('PGF','/repo')); sys.path.insert(0,'/verif/design_probes')
from gen import *
from pygradflow.solver import Solver
from pygradflow.callbacks import CallbackType
from pygradflow.status import SolverStatus
import pygradflow.timer as T
warnings.simplefilter('ignore')
LG=logging.getLogger("gradflow")
class Clk:
    def __init__(s, plan=None, expire=None): s.n=0; s.t=0.0; s.plan=plan or []; s.expire=expire; s.reads=[]
    def time(s):
        fr=sys._getframe(1); who=fr.f_code.co_name; cls=type(fr.f_locals.get('self')).__name__
        if s.expire is not None:
            if s.n>=s.expire: s.t=1e9
        elif s.n<len(s.plan): s.t+=s.plan[s.n]
        s.n+=1; s.reads.append((cls+'.'+who, s.t)); return s.t
class RS(Solver):
    def _compute_step(self, c, it, rho, dt, disp, timer):
        r=super()._compute_step(c,it,rho,dt,disp,timer)
        self.trials.append(dict(inp=it,dt=dt,rho=rho,lamb=r.lamb,acc=bool(r.accepted),out=r.iterate,nreads=T.time.n))
        return r
def tkey(t): return (t['dt'],t['rho'],t['lamb'],t['acc'],t['out'].x.tobytes(),t['out'].y.tobytes())
def run(spec, kw, clock=None, level=logging.CRITICAL, cbs=(), problem=None, handler=None):
    T.time=clock or Clk()
    LG.setLevel(level)
    p=problem or GenProblem(spec)
    s=RS(p,Params(**kw)); s.trials=[]; s.cbs=[]
    def rec(it,nit,acc): s.cbs.append((it,nit,bool(acc),s.rho))
    s.callbacks.register(CallbackType.ComputedStep, rec)
    for cb in cbs: s.callbacks.register(CallbackType.ComputedStep, cb)
    out=dict(solver=s, clock=T.time, problem=p)
    try:
        r=s.solve(spec['x0'].copy(), spec['y0'].copy())
        out.update(result=r, status=r.status.name, key=(r.status.name,r.iterations,r.num_accepted_steps,r.x.tobytes(),r.y.tobytes(),r.d.tobytes()))
    except Exception as e:
        tb=[f for f in traceback.extract_tb(e.__traceback__) if '/repo/pygradflow' in f.filename]
        out.update(result=None, status='EXC', exc=e, key=('EXC',type(e).__name__,str(e)[:30]), where=(tb[-1].name if tb else '?'))
    out['traj']=[tkey(t) for t in s.trials]
    return out
def touch(it,nit,acc):
    for o in (it,nit):
        try:
            o.obj; o.cons; o.total_res; o.bounds_dual; o.active_set; o.aug_lag(1.0); o.cons_jac
        except Exception: pass
