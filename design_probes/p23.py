from h import *
class BDev(GenProblem):
    def __init__(s,spec): super().__init__(spec); s.oob=[]; s.n=0
    def chk(s,x,comp):
        s.n+=1
        if (x<s.s['xl']).any() or (x>s.s['xu']).any():
            names=[]; f=sys._getframe(2)
            while f is not None:
                if '/pygradflow/' in f.f_code.co_filename: names.append(f.f_code.co_name)
                f=f.f_back
            if not ({'deriv_check','create_scaling'} & set(names)): s.oob.append((comp, names[:4]))
    def obj(s,x): s.chk(x,'obj'); return super().obj(x)
    def obj_grad(s,x): s.chk(x,'grad'); return super().obj_grad(x)
    def cons(s,x): s.chk(x,'cons'); return super().cons(x)
    def cons_jac(s,x): s.chk(x,'jac'); return super().cons_jac(x)
    def lag_hess(s,x,y): s.chk(x,'hess'); return super().lag_hess(x,y)
def check(seed):
    rng=np.random.default_rng(seed); spec=gen_spec(rng); kw=gen_params(rng,spec)
    kw['iteration_limit']=60
    if rng.random()<0.3: kw['deriv_check']=DerivCheck.CheckAll
    p=BDev(spec)
    o=run(spec,kw,problem=p,clock=Clk(plan=[0.2]*500),level=logging.INFO,cbs=(touch,))
    out=[]
    if p.oob: out.append(('oob',kw['newton_type'].name,str(p.oob[0])))
    s=o['solver']
    for it,nit,acc,rho in s.cbs:
        for z in (it,nit):
            if (z.x<s.problem.var_lb).any() or (z.x>s.problem.var_ub).any(): out.append(('cb-oob',kw['newton_type'].name)); break
    if o['result'] is not None:
        r=o['result']
        if (r.x<spec['xl']).any() or (r.x>spec['xu']).any(): out.append(('result-oob',))
    return out
if __name__=='__main__':
    from concurrent.futures import ProcessPoolExecutor
    c=collections.Counter()
    with ProcessPoolExecutor(16) as ex_:
        for i,res in enumerate(ex_.map(check, range(int(sys.argv[1])), chunksize=8)):
            for v in set(res):
                c[v[:2]]+=1
                if c[v[:2]]<=2: print(i,v)
    for k,v in sorted(c.items(), key=str): print(v,k)
