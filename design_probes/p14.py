from h import *
class H(logging.Handler):
    def emit(self, rec): self.format(rec)
hd=H(); LG.addHandler(hd); LG.propagate=False
def check(seed):
    rng=np.random.default_rng(seed); spec=gen_spec(rng, kind=rng.choice(['qp','nlp'])); kw=gen_params(rng,spec)
    if kw['newton_type']==NewtonType.Globalized: kw['newton_type']=NewtonType.Simplified
    kw['iteration_limit']=int(rng.choice([10,40])); kw['report_rcond']=False; kw['collect_path']=False
    if seed%2==0: kw['step_control_type']=StepControlType.Exact
    out=[]
    ref=run(spec,dict(kw,display_interval=1e9))
    if ref['status']=='EXC': return [('ref-exc',ref['where'])]
    L=len(ref['traj']); reads=ref['clock'].reads
    # C08 iteration stops
    for k in range(0,L+1):
        o=run(spec,dict(kw,display_interval=1e9,iteration_limit=k))
        if o['traj']!=ref['traj'][:k]: out.append(('iter-prefix',k))
        if k<L and o['status']!='IterationLimit': out.append(('iter-status',k,o['status']))
        if k<L and o['status']!='EXC':
            s=o['solver']; r=o['result']
            acc=[t for i,t in enumerate(ref['solver'].trials[:k])]
            # final internal iterate equals ref accepted at k
            cur = ref['solver'].trials[k]['inp'] if k<L else None
            fin = s.trials[-1]['out'] if (s.trials and False) else None
            xs,ys,ds = ref['solver'].transform.restore_sol(cur.x,cur.y,cur.bounds_dual)
            if xs.tobytes()!=r.x.tobytes() or ys.tobytes()!=r.y.tobytes() or ds.tobytes()!=r.d.tobytes(): out.append(('iter-result',k))
    # C08 deadline at each read after Timer start
    start=[i for i,(w,_) in enumerate(reads) if w=='Timer.__init__'][0]
    for j in range(start+1, len(reads)):
        o=run(spec,dict(kw,display_interval=1e9,time_limit=1.0), clock=Clk(expire=j))
        tj=o['traj']
        # number of trials ref completed before read j
        jj=[i for i in range(j,len(reads)) if reads[i][0]=='Timer.elapsed']
        jstop = jj[0] if jj else len(reads)
        p=sum(1 for t in ref['solver'].trials if t['nreads']<=jstop)
        ok = tj[:p]==ref['traj'][:p] and len(tj) in (p,p+1)
        if len(tj)==p+1:
            t=o['solver'].trials[-1]
            if t['acc'] or t['out'] is not t['inp'] or t['lamb']!=2.0*(1.0/t['dt']): ok=False
        if not ok: out.append(('dl-prefix',j,p,len(tj)))
        if o['status']!='TimeLimit' and not (p==L and o['status']==ref['status']): out.append(('dl-status',j,o['status'],reads[j][0],p,L))
        elif p<L:
            r=o['result']; cur=ref['solver'].trials[p]['inp']
            xs,ys,ds = ref['solver'].transform.restore_sol(cur.x,cur.y,cur.bounds_dual)
            if xs.tobytes()!=r.x.tobytes() or ds.tobytes()!=r.d.tobytes(): out.append(('dl-result',j))
    # C09 observers
    for lvl in (logging.WARNING, logging.INFO):
        for di,plan in ((0.0,None),(None,None),(0.1,[float(rng.choice([0,0.2])) for _ in range(400)])):
            for cbs in ((),(touch,)):
                o=run(spec,dict(kw,display_interval=di,report_rcond=bool(rng.random()<0.5),collect_path=bool(rng.random()<0.5)), clock=Clk(plan=plan), level=lvl, cbs=cbs)
                if o['traj']!=ref['traj'] or o['key']!=ref['key']: out.append(('obs',lvl,di,len(cbs),o['key'][:3],ref['key'][:3],o.get('where')))
    return out
if __name__=='__main__':
    from concurrent.futures import ProcessPoolExecutor
    c=collections.Counter()
    with ProcessPoolExecutor(16) as ex_:
        for i,res in enumerate(ex_.map(check, range(int(sys.argv[1])), chunksize=2)):
            for v in res:
                c[v[0]]+=1
                if c[v[0]]<=6: print(i,v)
    print(dict(c))
